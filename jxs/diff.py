"""Implicit symbolic differentiation over the polynomial domain (used by C16).

The primal outputs of a traced function are polynomials in input variables and in *defined* atoms (triangular
factors, solutions of linear systems, inverses, square roots, named intermediates), each introduced together with its
defining equations h = 0.  The true directional derivative of an output y along a direction of the inputs is

    D y = sum_v (dy/dv) * Dv ,

where Dv is the given direction for inputs and a fresh unknown for every defined atom, constrained by the differentiated
defining equations  D h = 0  (implicit function theorem; the atoms are locally unique functions of the inputs under the
non-singularity assumptions A3 that already accompany them).
"""
from fractions import Fraction

from .poly import Poly
from . import poly as P
from .interp import Unsupported


class Differ:
    def __init__(self, dom, directions):
        """directions: {variable id: Poly} for the differentiated inputs (all other inputs are held fixed)"""
        self.dom = dom
        self.tan = dict(directions)
        self.defined = set(dom.defined)
        self.n_hyps = 0

    def dvar(self, v):
        t = self.tan.get(v)
        if t is not None:
            return t
        dom = self.dom
        if v in dom.alg_atoms or v not in self.defined:
            t = Poly()                                  # constants and inputs that are held fixed
        else:
            desc = dom.atoms.get(v)
            kind = desc[0] if isinstance(desc, tuple) and desc else None
            if kind == "log" and len(desc) == 2:
                t = dom.div(self.D(desc[1]), desc[1])
            elif kind in ("log", "exp", "pow", "uf", "lgamma", "erf_inv"):
                raise Unsupported(f"derivative of the transcendental atom {P.NAMES[v]} ({kind})")
            if kind == "sign":
                t = Poly()
            else:
                t, _ = dom.fresh("d_" + P.NAMES[v] + "_", ("tangent", v))
        self.tan[v] = t
        return t

    def D(self, p):
        out = Poly()
        for mono, c in p.t.items():
            for k, (v, e) in enumerate(mono):
                dv = self.dvar(v)
                if not dv.t:
                    continue
                rest = list(mono[:k])
                if e != 1:
                    rest.append((v, P._norm(e - 1)))
                rest += list(mono[k + 1:])
                out = out + Poly({tuple(rest): P._norm(Fraction(c) * Fraction(e))}) * dv
        return out

    def differentiate_hypotheses(self):
        """add D h = 0 for every defining equation known so far (call once, after the primal run)"""
        dom = self.dom
        hyps = list(zip(dom.hyps, dom.hyp_labels))
        # (the defining equations of inverse / square-root / absolute-value atoms are ordinary hypotheses already)
        for h, lab in hyps:
            dh = self.D(h)
            if dh.t:
                dom.hyp(dh, "D(" + lab + ")")
                self.n_hyps += 1
        return self.n_hyps
