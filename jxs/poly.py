"""Exact sparse multivariate (Laurent/Puiseux in declared units) polynomials over Q.

A monomial is a tuple of (variable id, exponent) pairs sorted by id.  Exponents are
positive ints for ordinary variables; variables declared as *units* (strictly positive
reals, e.g. a step size h) may carry negative and rational exponents, so h**-1, sqrt(h),
|h| need no side conditions.  Coefficients are ints or Fractions (ints when integral).
"""
from fractions import Fraction

NAMES = []          # id -> name
IDS = {}            # name -> id
UNITS = set()       # ids of strictly positive unit variables


def reset():
    NAMES.clear(); IDS.clear(); UNITS.clear(); _MUL.clear()


def vid(name, unit=False):
    i = IDS.get(name)
    if i is None:
        i = len(NAMES); NAMES.append(name); IDS[name] = i
    if unit:
        UNITS.add(i)
    return i


def _norm(c):
    if isinstance(c, Fraction) and c.denominator == 1:
        return c.numerator
    return c


_MUL = {}


def mono_mul(a, b):
    if not a:
        return b
    if not b:
        return a
    key = (a, b)
    r = _MUL.get(key)
    if r is not None:
        return r
    i = j = 0; la = len(a); lb = len(b); out = []
    while i < la and j < lb:
        va, ea = a[i]; vb, eb = b[j]
        if va == vb:
            e = ea + eb
            if e != 0:
                out.append((va, _norm(e)))
            i += 1; j += 1
        elif va < vb:
            out.append(a[i]); i += 1
        else:
            out.append(b[j]); j += 1
    if i < la:
        out.extend(a[i:])
    if j < lb:
        out.extend(b[j:])
    r = tuple(out)
    if len(_MUL) < 2_000_000:
        _MUL[key] = r
    return r


def mono_deg(m):
    """total degree in the non-unit variables"""
    return sum(e for v, e in m if v not in UNITS)


def mono_div(m, t):
    """m / t if t divides m (units divide freely), else None"""
    d = dict(m)
    for v, e in t:
        if v in UNITS:
            ne = d.get(v, 0) - e
        else:
            ne = d.get(v, 0) - e
            if ne < 0:
                return None
        if ne == 0:
            d.pop(v, None)
        else:
            d[v] = _norm(ne)
    return tuple(sorted(d.items()))


class Poly:
    __slots__ = ("t", "_h")

    def __init__(self, t=None):
        self.t = t if t is not None else {}
        self._h = None

    # -- constructors
    @staticmethod
    def var(name, unit=False):
        return Poly({((vid(name, unit), 1),): 1})

    @staticmethod
    def const(c):
        if isinstance(c, float):
            c = Fraction(c)
        c = _norm(Fraction(c)) if not isinstance(c, int) else c
        return Poly({(): c}) if c != 0 else Poly()

    @staticmethod
    def mono(m, c=1):
        return Poly({m: c})

    # -- queries
    def is_zero(self):
        return not self.t

    def is_const(self):
        return not self.t or (len(self.t) == 1 and () in self.t)

    def cval(self):
        return Fraction(self.t.get((), 0))

    def deg(self):
        return max((mono_deg(m) for m in self.t), default=0)

    def vars(self):
        return {v for m in self.t for v, _ in m}

    def nterms(self):
        return len(self.t)

    # -- arithmetic
    def __add__(s, o):
        o = lift(o)
        if o is NotImplemented:
            return o
        if not o.t:
            return s
        if not s.t:
            return o
        if len(s.t) < len(o.t):
            s, o = o, s
        r = dict(s.t)
        for m, c in o.t.items():
            v = r.get(m)
            if v is None:
                r[m] = c
            else:
                v = v + c
                if v == 0:
                    del r[m]
                else:
                    r[m] = _norm(v)
        return Poly(r)

    __radd__ = __add__

    def __neg__(s):
        return Poly({m: -c for m, c in s.t.items()})

    def __sub__(s, o):
        o = lift(o)
        if o is NotImplemented:
            return o
        return s + (-o)

    def __rsub__(s, o):
        return lift(o) + (-s)

    def __mul__(s, o):
        o = lift(o)
        if o is NotImplemented:
            return o
        if not s.t or not o.t:
            return ZERO
        if len(o.t) == 1:
            (m2, c2), = o.t.items()
            if not m2:
                if c2 == 1:
                    return s
                return Poly({m: _norm(c * c2) for m, c in s.t.items()})
            return Poly({mono_mul(m1, m2): _norm(c1 * c2) for m1, c1 in s.t.items()})
        if len(s.t) == 1:
            return o * s
        r = {}
        for m1, c1 in s.t.items():
            for m2, c2 in o.t.items():
                m = mono_mul(m1, m2)
                v = r.get(m)
                if v is None:
                    r[m] = c1 * c2
                else:
                    v = v + c1 * c2
                    if v == 0:
                        del r[m]
                    else:
                        r[m] = v
        return Poly({m: _norm(c) for m, c in r.items()})

    __rmul__ = __mul__

    def __pow__(s, k):
        assert isinstance(k, int) and k >= 0, k
        r = ONE
        for _ in range(k):
            r = r * s
        return r

    def scale(s, c):
        if c == 0:
            return ZERO
        return Poly({m: _norm(v * c) for m, v in s.t.items()})

    def __eq__(s, o):
        o = lift(o)
        if o is NotImplemented:
            return False
        return s.t == o.t

    def __ne__(s, o):
        return not s.__eq__(o)

    def __hash__(s):
        if s._h is None:
            s._h = hash(frozenset(s.t.items()))
        return s._h

    def __bool__(s):
        raise TypeError("truth value of a symbolic polynomial")

    def __repr__(s):
        if not s.t:
            return "0"
        parts = []
        for m, c in list(s.t.items())[:8]:
            ms = "*".join(NAMES[v] + ("" if e == 1 else f"^{e}") for v, e in m)
            parts.append(f"{c}" if not m else (ms if c == 1 else f"{c}*{ms}"))
        return " + ".join(parts) + (f" ...[{len(s.t)} terms]" if len(s.t) > 8 else "")

    def to_str(s):
        if not s.t:
            return "0"
        parts = []
        for m, c in s.t.items():
            ms = "*".join(NAMES[v] + ("" if e == 1 else f"^({e})") for v, e in m)
            parts.append(f"{c}" if not m else f"({c})*{ms}")
        return " + ".join(parts)

    # -- evaluation / substitution
    def eval(s, env):
        """env: name or id -> number (Fraction for exact, float otherwise)."""
        tot = 0
        for m, c in s.t.items():
            x = c
            for v, e in m:
                b = env[v] if v in env else env[NAMES[v]]
                if isinstance(e, int):
                    x = x * b ** e
                else:
                    x = x * float(b) ** float(e)
            tot = tot + x
        return tot

    def subs(s, mapping):
        """mapping: var id -> Poly.  Only for non-negative integer exponents of the substituted vars."""
        out = ZERO
        for m, c in s.t.items():
            term = Poly.const(c)
            rest = []
            for v, e in m:
                if v in mapping:
                    assert isinstance(e, int) and e >= 0, (NAMES[v], e)
                    term = term * (mapping[v] ** e)
                else:
                    rest.append((v, e))
            if rest:
                term = term * Poly({tuple(rest): 1})
            out = out + term
        return out

    def diff(s, v):
        """partial derivative wrt variable id v (integer exponents)"""
        r = {}
        for m, c in s.t.items():
            for k, (w, e) in enumerate(m):
                if w == v:
                    nm = m[:k] + (((w, e - 1),) if e != 1 else ()) + m[k + 1:]
                    r[nm] = _norm(r.get(nm, 0) + c * e)
                    if r[nm] == 0:
                        del r[nm]
                    break
        return Poly(r)


ZERO = Poly()
ONE = Poly({(): 1})


def lift(o):
    if isinstance(o, Poly):
        return o
    if isinstance(o, bool):
        return Poly.const(int(o))
    if isinstance(o, (int, Fraction)):
        return Poly.const(o)
    if isinstance(o, float):
        return Poly.const(Fraction(o))
    try:
        import numpy as np
        if isinstance(o, np.ndarray) and o.ndim == 0 and o.dtype != object:
            o = o[()]
        if isinstance(o, np.bool_):
            return Poly.const(int(o))
        if isinstance(o, np.integer):
            return Poly.const(int(o))
        if isinstance(o, np.floating):
            return Poly.const(Fraction(float(o)))
    except ImportError:
        pass
    return NotImplemented
