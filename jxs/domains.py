"""Scalar domains for the jaxpr interpreter.

PolyDomain  exact polynomials over Q; non-polynomial primitives become fresh variables
            plus defining polynomial equations (hypotheses) -- back end P.
Z3Domain    z3 real/bool terms with ite; back end S.
FloatDomain python floats (translator validation against real JAX).
"""
import math
from fractions import Fraction

import numpy as np

from . import poly as P
from .poly import Poly
from .interp import Unsupported, Undecided


def _isqrt_frac(c):
    """(k, r): c = k^2 * r with r a squarefree positive integer times 1 (c > 0 rational)."""
    n, d = c.numerator, c.denominator
    # sqrt(n/d) = sqrt(n*d)/d
    m = n * d
    k = 1
    r = 1
    f = 2
    while f * f <= m:
        cnt = 0
        while m % f == 0:
            m //= f; cnt += 1
        k *= f ** (cnt // 2)
        if cnt % 2:
            r *= f
        f += 1
    r *= m
    return Fraction(k, d), r


def _prime_factors(r):
    out = []
    f = 2
    while f * f <= r:
        if r % f == 0:
            out.append(f)
            while r % f == 0:
                r //= f
        f += 1
    if r > 1:
        out.append(r)
    return out


class SignPred:
    """the undecided predicate  p > 0  (p != 0 assumed)"""
    __slots__ = ("p",)

    def __init__(self, p):
        self.p = p

    def __bool__(self):
        raise Undecided(f"truth value of the sign of {self.p!r}")

    def __repr__(self):
        return f"SignPred({self.p!r} > 0)"


class PolyDomain:
    exact_concrete = True
    can_branch = False

    def __init__(self):
        self.hyps = []            # list of Poly (each == 0)
        self.hyp_labels = []
        self.cache = {}
        self.pos = set()          # var ids known > 0
        self.nonneg = set()       # var ids known >= 0
        self.nonzero = []         # polys assumed != 0 (definedness conditions, A3)
        self.nonneg_conds = []    # polys assumed >= 0 (radicands)
        self.sign_assumed = {}    # Poly -> +1/-1/0, supplied by the harness (case assumptions)
        self.atoms = {}           # var id -> description tuple
        self.defined = []         # var ids introduced by contracts, in order
        self.n = 0
        self.notes = []
        self.explicit_solve_max = 3
        self.alg_atoms = {}       # var id -> integer p with var^2 = p  (sqrt of primes)
        self.sq_atoms = {}        # var id -> Poly a with var^2 = a   (sqrt / abs atoms)
        self.inv_atoms = {}       # var id -> Poly b with var * b = 1 (inverse atoms, b != 0 by A3)

    # ---- bookkeeping
    def fresh(self, prefix, desc=None, positive=False, nonneg=False):
        self.n += 1
        name = f"{prefix}{self.n}"
        v = P.vid(name)
        self.defined.append(v)
        if desc is not None:
            self.atoms[v] = desc
        if positive:
            self.pos.add(v)
        if nonneg:
            self.nonneg.add(v)
        return Poly({((v, 1),): 1}), v

    def hyp(self, p, label=""):
        if p.t:
            self.hyps.append(p)
            self.hyp_labels.append(label)

    def input(self, name, positive=False, unit=False):
        x = Poly.var(name, unit=unit)
        if positive or unit:
            self.pos.add(P.IDS[name])
        return x

    def assume_sign(self, p, s):
        self.sign_assumed[p] = s

    # ---- constants / predicates
    def const(self, c):
        return Poly.const(c)

    def bool_const(self, b):
        return bool(b)

    def is_zero(self, x):
        return isinstance(x, Poly) and not x.t

    def decide(self, b):
        if isinstance(b, (bool, np.bool_)):
            return bool(b)
        return None

    def decide_index(self, iv, n):
        if isinstance(iv, Poly) and iv.is_const():
            return int(max(0, min(n - 1, int(iv.cval()))))
        return None

    def as_int(self, v):
        if isinstance(v, Poly) and v.is_const() and v.cval().denominator == 1:
            return int(v.cval())
        return None

    def sign_class(self, p):
        """'zero','pos','neg','nonneg','nonpos' or None"""
        if not p.t:
            return "zero"
        if p.is_const():
            return "pos" if p.cval() > 0 else "neg"
        s = self.sign_assumed.get(p)
        if s is None:
            s2 = self.sign_assumed.get(-p)
            if s2 is not None:
                s = -s2
        if s is not None:
            return {1: "pos", -1: "neg", 0: "zero"}[s]
        allpos = allneg = True
        strict = False
        for m, c in p.t.items():
            msign = 1          # sign of the monomial part: 1 = >=0 known, 2 = >0 known, 0 unknown
            st = True
            for v, e in m:
                if v in self.pos or v in P.UNITS:
                    continue
                if v in self.nonneg:
                    st = False
                    continue
                if isinstance(e, int) and e % 2 == 0:
                    st = False
                    continue
                msign = 0
                break
            if msign == 0:
                return None
            if c > 0:
                allneg = False
            else:
                allpos = False
            strict = strict or st
        if allpos:
            return "pos" if strict else "nonneg"
        if allneg:
            return "neg" if strict else "nonpos"
        return None

    def _cmp(self, a, b):
        """sign of a-b: 1, -1, 0, or raises"""
        d = a - b
        sc = self.sign_class(d)
        if sc == "pos":
            return 1
        if sc == "neg":
            return -1
        if sc == "zero":
            return 0
        raise Undecided(f"sign of {d!r} (class {sc})")

    def _cmp_or_pred(self, a, b, flip):
        """decided comparison, or (opt-in, `symbolic_sign_preds`) a SignPred handled by select through a sign atom"""
        try:
            return self._cmp(a, b)
        except Undecided:
            if not getattr(self, "symbolic_sign_preds", False):
                raise
            return SignPred(b - a if flip else a - b)

    def lt(self, a, b):
        c = self._cmp_or_pred(a, b, True)
        return c if isinstance(c, SignPred) else c < 0

    def le(self, a, b):
        c = self._cmp_or_pred(a, b, True)
        return c if isinstance(c, SignPred) else c <= 0

    def gt(self, a, b):
        c = self._cmp_or_pred(a, b, False)
        return c if isinstance(c, SignPred) else c > 0

    def ge(self, a, b):
        c = self._cmp_or_pred(a, b, False)
        return c if isinstance(c, SignPred) else c >= 0
    def eq(self, a, b):
        if isinstance(a, bool) or isinstance(b, bool):
            return bool(a) == bool(b)
        d = a - b
        if len(d.t) == 1:      # +-(sign atom): s^2 = 1, hence never zero
            (m, c), = d.t.items()
            if len(m) == 1 and m[0][1] == 1 and m[0][0] in self.sq_atoms and self.sq_atoms[m[0][0]] == Poly.const(1):
                return False
        return self._cmp(a, b) == 0
    def ne(self, a, b): return not self.eq(a, b)
    def and_(self, a, b): return bool(a) and bool(b)
    def or_(self, a, b): return bool(a) or bool(b)
    def not_(self, a): return not bool(a)
    def xor_(self, a, b): return bool(a) != bool(b)

    def select(self, b, t, f):
        if isinstance(b, SignPred):
            # predicate "p > 0" with p != 0 (A3): blend through the sign atom s (s^2 = 1, s p = |p|)
            if isinstance(t, Poly) and isinstance(f, Poly):
                if not hasattr(self, "branch_preds"):
                    self.branch_preds = []
                if b.p not in self.branch_preds:
                    self.branch_preds.append(b.p)
                sg = self.sign(b.p)
                half = Poly.const(Fraction(1, 2))
                return (t + f) * half + (t - f) * half * sg
            raise Undecided(f"select of non-numeric operands on the sign of {b.p!r}")
        d = self.decide(b)
        if d is None:
            raise Undecided(f"select on {b!r}")
        return t if d else f

    # ---- arithmetic
    def mul(self, a, b):
        return a * b

    def _var_atom(self, kind, v):
        """per-variable atoms: inverse or absolute value of a single variable"""
        key = (kind, v)
        if key in self.cache:
            return self.cache[key]
        x = Poly({((v, 1),): 1})
        if kind == "inv":
            w, wid = self.fresh("iv_", ("inv", x), positive=(v in self.pos))
            self.hyp(w * x - 1, f"inv({P.NAMES[v]})")
            self.nonzero.append(x)
            self.inv_atoms[wid] = x
        else:
            w, wid = self.fresh("av_", ("abs", x), nonneg=True)
            self.hyp(w * w - x * x, f"abs({P.NAMES[v]})")
            self.sq_atoms[wid] = x * x
        self.cache[key] = w
        return w

    def div(self, a, b):
        if b.is_const() and not b.t:
            raise Unsupported("division by the constant zero")       # also 0/0: the real code returns NaN there
        if not a.t:
            return a
        if b.is_const():
            return a.scale(1 / b.cval())
        if self._has_inf(b):
            if len(b.t) == 1 and not self._has_inf(a):
                (m, c), = b.t.items()
                if c > 0 and all((P.NAMES[v] == "__INF__" and e > 0) or v in self.pos or v in P.UNITS for v, e in m):
                    return Poly()          # finite / (+inf) = 0
            raise Unsupported("division involving +inf")
        if len(b.t) == 1:
            (m, c), = b.t.items()
            r = a.scale(Fraction(1) / c)
            for v, e in m:
                if v in P.UNITS:
                    r = r * Poly({((v, -e),): 1})
                else:
                    assert isinstance(e, int) and e > 0
                    r = r * (self._var_atom("inv", v) ** e)
            return r
        key = ("inv", b)
        if key not in self.cache:
            nb = -b
            if ("inv", nb) in self.cache:
                self.cache[key] = -self.cache[("inv", nb)]
            else:
                sc = self.sign_class(b)
                w, wid = self.fresh("inv", ("inv", b), positive=(sc == "pos"))
                self.hyp(w * b - 1, "inv")
                self.nonzero.append(b)
                self.inv_atoms[wid] = b
                self.cache[key] = w
        return a * self.cache[key]

    def sqrt_const(self, c):
        if c < 0:
            raise Unsupported("sqrt of a negative constant")
        if c == 0:
            return Poly()
        c = Fraction(c)
        if c.numerator * c.denominator > 10 ** 12:
            key = ("sqrtc", c)
            if key not in self.cache:
                s, sid = self.fresh("rtc_", ("sqrt", Poly.const(c)), positive=True)
                self.hyp(s * s - Poly.const(c), f"sqrt({c})")
                self.cache[key] = s
            return self.cache[key]
        k, r = _isqrt_frac(c)
        out = Poly.const(k)
        for pr in _prime_factors(r):
            key = ("sqrtp", pr)
            if key not in self.cache:
                s, sid = self.fresh(f"rt{pr}_", ("sqrt", Poly.const(pr)), positive=True)
                self.hyp(s * s - pr, f"sqrt({pr})")
                self.alg_atoms[sid] = pr
                self.cache[key] = s
            out = out * self.cache[key]
        return out

    def sqrt(self, a):
        if a.is_const():
            return self.sqrt_const(a.cval())
        if len(a.t) == 1:
            (m, c), = a.t.items()
            if c > 0:
                r = self.sqrt_const(Fraction(c))
                ok = True
                for v, e in m:
                    if v in P.UNITS:
                        r = r * Poly({((v, P._norm(Fraction(e) / 2)),): 1})
                    elif isinstance(e, int) and e % 2 == 0:
                        x = Poly({((v, 1),): 1})
                        ax = x if (v in self.pos or v in self.nonneg) else self._var_atom("abs", v)
                        r = r * ax ** (e // 2)
                    else:
                        ok = False
                        break
                if ok:
                    return r
        key = ("sqrt", a)
        if key not in self.cache:
            sc = self.sign_class(a)
            s, sid = self.fresh("sq", ("sqrt", a), positive=(sc == "pos"), nonneg=True)
            self.hyp(s * s - a, "sqrt")
            self.sq_atoms[sid] = a
            if sc not in ("pos", "nonneg", "zero"):
                self.nonneg_conds.append(a)
            self.cache[key] = s
        return self.cache[key]

    def abs(self, a):
        sc = self.sign_class(a)
        if sc in ("pos", "nonneg", "zero"):
            return a
        if sc in ("neg", "nonpos"):
            return -a
        if len(a.t) == 1:
            (m, c), = a.t.items()
            r = Poly.const(abs(Fraction(c)))
            for v, e in m:
                x = Poly({((v, 1),): 1})
                if v in self.pos or v in self.nonneg or v in P.UNITS:
                    r = r * Poly({((v, e),): 1})
                elif isinstance(e, int) and e % 2 == 0:
                    r = r * x ** e
                else:
                    r = r * self._var_atom("abs", v) ** e
            return r
        key = ("abs", a)
        if key not in self.cache:
            if ("abs", -a) in self.cache:
                self.cache[key] = self.cache[("abs", -a)]
            else:
                s, sid = self.fresh("ab", ("abs", a), nonneg=True)
                self.hyp(s * s - a * a, "abs")
                self.sq_atoms[sid] = a * a
                self.cache[key] = s
        return self.cache[key]

    def sign(self, a):
        sc = self.sign_class(a)
        if sc == "pos": return Poly.const(1)
        if sc == "neg": return Poly.const(-1)
        if sc == "zero": return Poly()
        key = ("sign", a)
        if key not in self.cache:
            s, sid = self.fresh("sg", ("sign", a))
            self.hyp(s * s - 1, "sign^2")
            self.sq_atoms[sid] = Poly.const(1)
            self.hyp(s * a - self.abs(a), "sign*x=|x|")
            self.nonzero.append(a)
            self.cache[key] = s
        return self.cache[key]

    def pow(self, a, q):
        q = Fraction(q)
        if q == 0:
            return Poly.const(1)
        if q.denominator == 1:
            k = int(q)
            if k > 0:
                return a ** k
            return self.div(Poly.const(1), a ** (-k))
        if a.is_const():
            c = a.cval()
            if q.denominator == 2:
                r = self.sqrt_const(c)
                k = int(q * 2)
                return r ** k if k > 0 else self.div(Poly.const(1), r ** (-k))
        if len(a.t) == 1:
            (m, c), = a.t.items()
            if c == 1 and all(v in P.UNITS for v, _ in m):
                return Poly({tuple((v, P._norm(Fraction(e) * q)) for v, e in m): 1})
            if q.denominator == 2 and c > 0 and all(v in P.UNITS for v, _ in m):
                r = self.sqrt(a)
                k = int(q * 2)
                return r ** k if k > 0 else self.div(Poly.const(1), r ** (-k))
        return self.uf("pow", (a, Poly.const(q)), positive=self.sign_class(a) == "pos")

    def pow_sym(self, a, b):
        if b.is_const():
            return self.pow(a, b.cval())
        return self.uf("pow", (a, b))

    def uf(self, name, args, positive=False):
        key = ("uf", name, tuple(args))
        if key not in self.cache:
            v, vid_ = self.fresh(f"{name}_", (name,) + tuple(args), positive=positive)
            self.cache[key] = v
        return self.cache[key]

    def exp(self, a):
        if not a.t:
            return Poly.const(1)
        if a.is_const():
            from .interp import snap
            return Poly.const(snap(math.exp(float(a.cval()))))
        if self._has_inf(a):
            if a == self._inf():
                return self._inf()
            raise Unsupported("exp of an expression containing +inf")
        # exp(lgamma(n)) = (n-1)!
        if len(a.t) == 1:
            (m, c), = a.t.items()
            if c == 1 and len(m) == 1 and m[0][1] == 1:
                d = self.atoms.get(m[0][0])
                if d and d[0] == "lgamma" and d[1].is_const():
                    n = d[1].cval()
                    if n.denominator == 1 and 1 <= n <= 60:
                        return Poly.const(math.factorial(int(n) - 1))
        return self.uf("exp", (a,), positive=True)

    def log(self, a):
        if a.is_const():
            c = a.cval()
            if c == 1:
                return Poly()
            if c > 0:   # A7: transcendental constants are the float64 value, read as a rational
                return Poly.const(Fraction(math.log(float(c))))
        return self.uf("log", (a,))

    def _inf(self):
        """+infinity as produced by IEEE arithmetic at poles (lgamma(0), exp(inf)); only  finite/inf = 0,
        exp(inf) = inf and positive multiples are supported"""
        return Poly.var("__INF__")

    def _has_inf(self, p):
        v = P.IDS.get("__INF__")
        return v is not None and v in p.vars()

    def lgamma(self, a):
        if a.is_const() and a.cval() in (1, 2):
            return Poly()
        if a.is_const() and a.cval().denominator == 1 and a.cval() <= 0:
            return self._inf()
        return self.uf("lgamma", (a,))

    def erf_inv(self, a):
        return self.uf("erf_inv", (a,))

    def max(self, a, b):
        c = self._cmp_or_pred(a, b, False)
        if isinstance(c, SignPred):
            return self.select(c, a, b)
        return a if c >= 0 else b

    def min(self, a, b):
        c = self._cmp_or_pred(a, b, False)
        if isinstance(c, SignPred):
            return self.select(c, b, a)
        return a if c <= 0 else b

    def to_int(self, a):
        if a.is_const() and a.cval().denominator == 1:
            return a
        raise Unsupported(f"to_int of {a!r}")

    def floor(self, a):
        if a.is_const():
            return Poly.const(math.floor(a.cval()))
        raise Unsupported("floor of symbolic")

    def ceil(self, a):
        if a.is_const():
            return Poly.const(math.ceil(a.cval()))
        raise Unsupported("ceil of symbolic")

    def round(self, a):
        if a.is_const():
            return Poly.const(round(a.cval()))
        raise Unsupported("round of symbolic")

    # ---- contracts (A2-A4)
    def _fresh_mat(self, prefix, shape, desc, upper=False):
        self.n += 1
        base = f"{prefix}{self.n}"
        out = np.empty(shape, dtype=object)
        for idx in np.ndindex(*shape):
            if upper and idx[0] > idx[1]:
                out[idx] = Poly()
                continue
            v = P.vid(base + "_" + "_".join(map(str, idx)))
            self.defined.append(v)
            self.atoms[v] = (desc, idx)
            out[idx] = Poly({((v, 1),): 1})
        return out, base

    def qr_r(self, M):
        m, n = M.shape
        k = min(m, n)
        if k < n:
            raise Unsupported("qr of a wide matrix")
        # qr is a function: syntactically identical inputs give the identical triangular factor
        ckey = ("qr", M.shape, tuple(M.reshape(-1).tolist()))
        if ckey in self.cache:
            return self.cache[ckey].copy()
        if all(not x.t for x in M.reshape(-1)):
            # R^T R = 0 over the reals forces R = 0
            Z = np.empty((n, n), dtype=object)
            for idx in np.ndindex(n, n):
                Z[idx] = Poly()
            self.cache[ckey] = Z
            return Z.copy()
        # columns that are identically zero -> corresponding row/col pattern is still generic; keep general
        R, name = self._fresh_mat("R", (n, n), "qr_r", upper=True)
        if getattr(self, "qr_pos_diag", False):
            # case assumption diag(R) > 0; the other sign patterns are its images under (Q, R) -> (Q D, D R)
            for i in range(n):
                self.pos.add(list(R[i, i].vars())[0])
        # a column of M that is identically zero forces the same column of R to vanish (its squared norm is (R^T R)_jj = 0)
        for j in range(n):
            if all(not x.t for x in M[:, j]):
                for i in range(n):
                    R[i, j] = Poly()
        G = M.T.dot(M) if M.size else None
        RtR = R.T.dot(R)
        for i in range(n):
            for j in range(i, n):
                self.hyp(RtR[i, j] - G[i, j], f"{name}:RtR=MtM[{i},{j}]")
        self.notes.append(("qr", name, (m, n)))
        self.cache[ckey] = R
        return R.copy()

    def qr_q(self, M):
        """the orthogonal factor belonging to qr_r(M) (reduced form): M = Q R, Q^T Q = I"""
        m, n = M.shape
        ckey = ("qr_q", M.shape, tuple(M.reshape(-1).tolist()))
        if ckey in self.cache:
            return self.cache[ckey].copy()
        R = self.qr_r(M)
        Q, name = self._fresh_mat("Q", (m, n), "qr_q")
        E = Q.dot(R) - M
        for idx in np.ndindex(m, n):
            self.hyp(E[idx], f"{name}:QR=M{list(idx)}")
        G = Q.T.dot(Q)
        for i in range(n):
            for j in range(i, n):
                self.hyp(G[i, j] - Poly.const(1 if i == j else 0), f"{name}:QtQ=I[{i},{j}]")
        self.cache[ckey] = Q
        return Q.copy()

    def tri_solve(self, A, B, *, left_side, lower, transpose_a, unit_diagonal):
        n = A.shape[0]
        T = A.T if transpose_a else A
        low = lower != bool(transpose_a)
        Tm = np.empty(T.shape, dtype=object)
        for i in range(n):
            for j in range(n):
                if i == j:
                    Tm[i, j] = Poly.const(1) if unit_diagonal else T[i, j]
                else:
                    Tm[i, j] = T[i, j] if ((i > j) if low else (i < j)) else Poly()
        if n == 1:
            return np.vectorize(lambda b: self.div(b, Tm[0, 0]), otypes=[object])(B)
        if n <= self.explicit_solve_max and left_side:
            # explicit substitution; each pivot contributes one inverse atom (A3: pivot != 0)
            B2 = B.reshape(n, -1)
            X = np.empty(B2.shape, dtype=object)
            order = range(n) if low else range(n - 1, -1, -1)
            for col in range(B2.shape[1]):
                for i in order:
                    acc = B2[i, col]
                    js = range(i) if low else range(i + 1, n)
                    for j in js:
                        if Tm[i, j].t and X[j, col].t:
                            acc = acc - Tm[i, j] * X[j, col]
                    X[i, col] = self.div(acc, Tm[i, i])
            self.notes.append(("tri_solve_explicit", f"n={n}", B.shape))
            return X.reshape(B.shape)
        X, name = self._fresh_mat("X", B.shape, "tri_solve")
        E = (Tm.dot(X) - B) if left_side else (X.dot(Tm) - B)
        for idx in np.ndindex(*E.shape):
            self.hyp(E[idx], f"{name}:TX=B{list(idx)}")
        for i in range(n):
            self.nonzero.append(Tm[i, i])
        # A3 as usable hypotheses: the triangular matrix is invertible (Ti T = T Ti = I)
        key = ("triinv", tuple(Tm.reshape(-1).tolist()))
        if key not in self.cache:
            Ti, iname = self._fresh_mat("Ti", (n, n), "tri_inverse")
            for i in range(n):
                for j in range(n):
                    if (i < j) if low else (i > j):
                        Ti[i, j] = Poly()
            I1 = Ti.dot(Tm); I2 = Tm.dot(Ti)
            for i in range(n):
                for j in range(n):
                    d = Poly.const(1 if i == j else 0)
                    self.hyp(I1[i, j] - d, f"{iname}:TiT=I")
                    self.hyp(I2[i, j] - d, f"{iname}:TTi=I")
            self.cache[key] = Ti
        self.notes.append(("tri_solve", name, B.shape))
        return X

    def solve(self, A, B):
        vec = B.ndim == 1
        B2 = B.reshape(-1, 1) if vec else B
        if A.shape == (1, 1):
            X = np.vectorize(lambda b: self.div(b, A[0, 0]), otypes=[object])(B2)
            return X.reshape(-1) if vec else X
        X, name = self._fresh_mat("S", B2.shape, "solve")
        E = A.dot(X) - B2
        for idx in np.ndindex(*E.shape):
            self.hyp(E[idx], f"{name}:AX=B{list(idx)}")
        self.notes.append(("solve", name, B2.shape))
        return X.reshape(-1) if vec else X

    def name_poly(self, x, label="o"):
        """named intermediate v with the defining hypothesis v = x (same polynomial -> same name)"""
        if x.is_const() or (len(x.t) == 1 and x.deg() <= 1):
            return x
        if x.vars() & set(self.inv_atoms):
            return x
        key = ("name", x)
        if key in self.cache:
            return self.cache[key]
        v, vid_ = self.fresh(f"{label}__", ("name", x))
        self.hyp(v - x, f"def {label}")
        self.cache[key] = v
        return v

    def lstsq(self, A, B):
        """minimum-norm least squares (A4): A^T A X = A^T B and X = A^T Y."""
        vec = B.ndim == 1
        B2 = B.reshape(-1, 1) if vec else B
        m, n = A.shape
        # name the entries of the system matrix: keeps the degree of the normal equations at three
        A = np.vectorize(lambda a: self.name_poly(a, "lsA"), otypes=[object])(A)
        X, name = self._fresh_mat("LS", (n, B2.shape[1]), "lstsq")
        Y, _ = self._fresh_mat("LSy", (m, B2.shape[1]), "lstsq_y")
        E = A.T.dot(A).dot(X) - A.T.dot(B2)
        for idx in np.ndindex(*E.shape):
            self.hyp(E[idx], f"{name}:normal{list(idx)}")
        E2 = X - A.T.dot(Y)
        for idx in np.ndindex(*E2.shape):
            self.hyp(E2[idx], f"{name}:range{list(idx)}")
        self.notes.append(("lstsq", name, (m, n)))
        return X.reshape(-1) if vec else X


class FloatDomain:
    """Plain float semantics through the *symbolic* code paths of the interpreter."""
    exact_concrete = False
    can_branch = False

    def __init__(self):
        self.uf_table = {}

    def const(self, c): return float(c)
    def bool_const(self, b): return bool(b)
    def is_zero(self, x): return isinstance(x, float) and x == 0.0
    def decide(self, b): return bool(b)
    def decide_index(self, iv, n): return int(max(0, min(n - 1, int(iv))))
    def as_int(self, v): return int(v)
    def mul(self, a, b): return a * b
    def div(self, a, b): return a / b if b != 0 else (math.copysign(math.inf, a) if a != 0 else math.nan)
    def sqrt(self, a): return math.sqrt(a) if a >= 0 else math.nan
    def abs(self, a): return abs(a)
    def sign(self, a): return float((a > 0) - (a < 0))
    def pow(self, a, q): return float(a) ** float(q)
    def pow_sym(self, a, b): return float(a) ** float(b)
    def exp(self, a): return math.exp(a)
    def log(self, a): return math.log(a) if a > 0 else (-math.inf if a == 0 else math.nan)
    def lgamma(self, a): return math.lgamma(a)
    def max(self, a, b): return max(a, b)
    def min(self, a, b): return min(a, b)
    def lt(self, a, b): return a < b
    def le(self, a, b): return a <= b
    def gt(self, a, b): return a > b
    def ge(self, a, b): return a >= b
    def eq(self, a, b): return a == b
    def ne(self, a, b): return a != b
    def and_(self, a, b): return bool(a) and bool(b)
    def or_(self, a, b): return bool(a) or bool(b)
    def not_(self, a): return not bool(a)
    def xor_(self, a, b): return bool(a) != bool(b)
    def select(self, b, t, f): return t if b else f
    def to_int(self, a): return float(int(a))
    def floor(self, a): return float(math.floor(a))
    def ceil(self, a): return float(math.ceil(a))
    def round(self, a): return float(round(a))
    def uf(self, name, args, positive=False):
        raise Unsupported("uninterpreted function in the float domain")

    want_q = True

    def qr_r(self, M):
        # the runtime's own factorisation, so that row-sign conventions agree with the real run being validated against
        import jax.numpy as jnp
        R = np.asarray(jnp.linalg.qr(jnp.asarray(M.astype(float)), mode="r"))
        return R.astype(object)

    def qr_q(self, M):
        import jax.numpy as jnp
        Q, _ = jnp.linalg.qr(jnp.asarray(M.astype(float)), mode="reduced")
        return np.asarray(Q).astype(object)

    def tri_solve(self, A, B, *, left_side, lower, transpose_a, unit_diagonal):
        import scipy.linalg as sl
        A = A.astype(float); B = B.astype(float)
        if unit_diagonal:
            A = A.copy(); np.fill_diagonal(A, 1.0)
        T = np.tril(A) if lower else np.triu(A)
        if transpose_a:
            T = T.T
        try:
            X = np.linalg.solve(T, B) if left_side else np.linalg.solve(T.T, B.T).T
        except np.linalg.LinAlgError:
            X = np.full(np.shape(B), np.nan)
        return X.astype(object)

    def solve(self, A, B):
        return np.linalg.solve(A.astype(float), B.astype(float)).astype(object)

    def lstsq(self, A, B):
        return np.linalg.lstsq(A.astype(float), B.astype(float), rcond=None)[0].astype(object)
