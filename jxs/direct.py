"""Direct back end: polynomial identities without hypotheses, decided by z3 (and cvc5 on request).

The implementation side (jaxpr interpreted over exact polynomials) and the oracle side (an
independent exact computation) are handed to the solver as two separate terms; the query is
`impl != oracle`.  unsat = identity for all real values of all symbols; sat = a concrete input,
which is replayed on the real code in float64.
"""
import json
import os
import time
import traceback
from fractions import Fraction

import numpy as np
import z3

from . import poly as P
from .poly import Poly
from .interp import is_sym, Unsupported, Undecided
from .domains import PolyDomain
from .trace import Traced
from .harness import CaseResult, _flat, close, pick_env
from . import harness as _h


def poly_to_z3(p, zvars):
    """unit variables (strictly positive, possibly with negative / half-integer exponents) are written as the square of
    a positive root variable: h = r^2, so h^e = r^(2e)"""
    terms = []
    for m, c in p.t.items():
        t = z3.RealVal(str(Fraction(c)))
        for v, e in m:
            if v in P.UNITS:
                key = ("root", v)
                x = zvars.get(key)
                if x is None:
                    x = z3.Real(P.NAMES[v] + "__root")
                    zvars[key] = x
                k = Fraction(e) * 2
                assert k.denominator == 1, (P.NAMES[v], e)
                k = int(k)
                for _ in range(abs(k)):
                    t = (t * x) if k > 0 else (t / x)
                continue
            x = zvars.get(v)
            if x is None:
                x = z3.Real(P.NAMES[v])
                zvars[v] = x
            assert isinstance(e, int) and e > 0, (P.NAMES[v], e)
            for _ in range(e):
                t = t * x
        terms.append(t)
    if not terms:
        return z3.RealVal(0)
    return z3.Sum(terms) if len(terms) > 1 else terms[0]


def to_smt2(exprs):
    s = z3.Solver()
    for e in exprs:
        s.add(e)
    return s.to_smt2()


def decide_identities(pairs, timeout_ms=60000, use_cvc5=False):
    """pairs: list of (impl Poly, oracle Poly).  One incremental z3 process, push/pop per pair."""
    zvars = {}
    s = z3.Solver()
    s.set("timeout", int(timeout_ms))
    out = []
    for a, b in pairs:
        ea, eb = poly_to_z3(a, zvars), poly_to_z3(b, zvars)
        s.push()
        s.add(ea != eb)
        for k_, x in zvars.items():
            if isinstance(k_, tuple):
                s.add(x > 0)
        t = time.time()
        r = str(s.check())
        dt = time.time() - t
        model = None
        if r == "sat":
            m = s.model()
            model = {}
            for v, x in zvars.items():
                val = m.eval(x, model_completion=True)
                try:
                    fv = Fraction(val.numerator_as_long(), val.denominator_as_long())
                except Exception:  # noqa: BLE001  algebraic value
                    fv = Fraction(val.approx(20).as_fraction()) if hasattr(val, "approx") else Fraction(0)
                if isinstance(v, tuple):
                    model[P.NAMES[v[1]]] = fv * fv
                else:
                    model[P.NAMES[v]] = fv
        s.pop()
        out.append({"verdict": r, "solver_s": dt, "model": model})
    return out


class DCase:
    """make(dom) -> (fn, args); goals(args, out, orc) -> {label: (impl, oracle)} (object arrays of Poly
    in proof mode, float arrays in replay mode)."""

    def __init__(self, case_id, make, goals, *, validate=True, interp_kw=None, timeout_ms=15000):
        self.id = case_id
        self.make = make
        self.goals = goals
        self.validate = validate
        self.interp_kw = interp_kw or {}
        self.timeout_ms = timeout_ms

    def run(self, seed=0, log=print, replay_dir=None):
        t0 = time.time()
        res = CaseResult(case=self.id, obligations=[], status="ok", notes=[])
        _h.CURRENT = res
        try:
            self._run(res, seed, log, replay_dir)
        except (Unsupported, Undecided) as ex:
            res["status"] = "inconclusive"
            res["notes"].append(f"{type(ex).__name__}: {ex}")
            log(f"  [{self.id}] INCONCLUSIVE {type(ex).__name__}: {ex}")
        except Exception as ex:  # noqa: BLE001
            res["status"] = "error"
            res["notes"].append(traceback.format_exc())
            log(f"  [{self.id}] HARNESS ERROR {ex!r}\n{traceback.format_exc()}")
        res["wall_s"] = round(time.time() - t0, 2)
        return res

    def _float_args(self, args, env):
        import jax
        from .trace import leaves_to_float
        leaves, td = jax.tree_util.tree_flatten(args, is_leaf=lambda x: isinstance(x, np.ndarray) and x.dtype == object)
        return jax.tree_util.tree_unflatten(td, leaves_to_float(leaves, env))

    def replay_float(self, tr, args, env):
        out_real = tr.run_real(env)
        af = self._float_args(args, env)
        pairs = self.goals(af, out_real, _h.Orc(None))
        rep = {}
        for label, (a, b) in pairs.items():
            ok, err = close(a, b)
            rep[label] = {"ok": bool(ok), "max_abs_err": err,
                          "impl": np.asarray(a, dtype=float).reshape(-1).tolist()[:16],
                          "oracle": np.asarray(b, dtype=float).reshape(-1).tolist()[:16]}
        return rep

    def _run(self, res, seed, log, replay_dir):
        dom = PolyDomain()
        t = time.time()
        fn, args = self.make(dom)
        tr = Traced(fn, args)
        out = tr.run_symbolic(dom, **self.interp_kw)
        it = tr.last_interp
        res["encoded"] = {"jaxpr_eqns": tr.n_eqns(), "eqns_interpreted": it.n_eqns,
                          "primitives": dict(sorted(it.prims_seen.items())),
                          "hyps_total": len(dom.hyps), "trace_interp_s": round(time.time() - t, 2)}
        if dom.hyps:
            res["notes"].append(f"{len(dom.hyps)} contract hypotheses were introduced; direct back end ignores them "
                                "(obligations then hold for any value of the contract variables)")
        pairs = self.goals(args, out, _h.Orc(dom))
        input_vars = set(tr.input_vars)
        env0 = pick_env(dom, input_vars, seed, 0)
        if self.validate:
            import jax
            real = tr.run_real(env0)
            fl = tr.run_float_interp(env0, **self.interp_kw)
            okv, worst = True, 0.0
            for a, b in zip(jax.tree_util.tree_leaves(real), jax.tree_util.tree_leaves(fl)):
                o, e = close(np.asarray(b, dtype=float), np.asarray(a, dtype=float), rtol=1e-7, atol=1e-9)
                okv = okv and o
                worst = max(worst, e if e == e else 0.0)
            res["translator_validation"] = {"ok": bool(okv), "max_abs_err": worst}
            if not okv:
                res["status"] = "inconclusive"
                res["notes"].append("translator validation failed")
                log(f"  [{self.id}] translator validation FAILED ({worst})")
                return
        for label, (a, b) in pairs.items():
            la, lb = _flat(a), _flat(b)
            tt = time.time()
            if np.shape(a) != np.shape(b):
                # a shape disagreement is a definite discrepancy: confirm it on the real code
                rep = self.replay_float(tr, args, env0)
                ob = {"id": f"{self.id}/{label}", "n_goals": len(la), "queries": 0, "solver_s": 0.0,
                      "goal_deg": 0, "goal_terms": 0, "nontrivial": True,
                      "status": "violated" if not rep[label]["ok"] else "inconclusive",
                      "note": f"shape {np.shape(a)} vs oracle shape {np.shape(b)}"}
                if ob["status"] == "violated":
                    ob["counterexample"] = {"inputs": {kk: str(vv) for kk, vv in env0.items()}, "label": label,
                                            "impl": rep[label]["impl"], "oracle": rep[label]["oracle"],
                                            "max_abs_err": rep[label]["max_abs_err"], "found_by": "shape mismatch"}
                    if replay_dir:
                        os.makedirs(replay_dir, exist_ok=True)
                        path = os.path.join(replay_dir, ob["id"].replace("/", "__") + ".json")
                        with open(path, "w") as f:
                            json.dump({"case": self.id, "obligation": ob["id"], "seed": seed,
                                       **ob["counterexample"]}, f, indent=1)
                        ob["replay"] = path
                res["obligations"].append(ob)
                log(f"  [{self.id}] {label}: {ob['status']} ({ob['note']})")
                continue
            assert len(la) == len(lb), (label, len(la), len(lb))
            verdicts = decide_identities(list(zip(la, lb)), timeout_ms=self.timeout_ms)
            nontrivial = any(x.t for x in la)
            ob = {"id": f"{self.id}/{label}", "n_goals": len(la), "queries": len(verdicts),
                  "solver_s": round(sum(v["solver_s"] for v in verdicts), 3),
                  "goal_deg": max((x.deg() for x in la), default=0),
                  "goal_terms": sum(x.nterms() for x in la), "nontrivial": bool(nontrivial)}
            vs = [v["verdict"] for v in verdicts]
            # `unknown` on a syntactically non-zero difference: let the solver decide the ground instance at
            # the seeded rational point (a non-zero polynomial vanishes almost nowhere)
            for k, v in enumerate(verdicts):
                if v["verdict"] == "unknown" and (la[k] - lb[k]).t:
                    z = z3.Solver(); z.set("timeout", 10000)
                    zv = {}
                    ea, eb = poly_to_z3(la[k], zv), poly_to_z3(lb[k], zv)
                    for vid_, x in zv.items():
                        if isinstance(vid_, tuple):
                            import math as _m
                            val_ = Fraction(env0.get(P.NAMES[vid_[1]], 1))
                            rt = Fraction(_m.isqrt(val_.numerator), _m.isqrt(val_.denominator))
                            z.add(x == z3.RealVal(str(rt)))
                        else:
                            z.add(x == z3.RealVal(str(env0.get(P.NAMES[vid_], 1))))
                    z.add(ea != eb)
                    if str(z.check()) == "sat":
                        v["verdict"] = "sat"
                        v["model"] = {P.NAMES[vid_[1] if isinstance(vid_, tuple) else vid_]:
                                      Fraction(env0.get(P.NAMES[vid_[1] if isinstance(vid_, tuple) else vid_], 1)) for vid_ in zv}
                        v["pinned"] = True
            vs = [v["verdict"] for v in verdicts]
            if all(v == "unsat" for v in vs):
                ob["status"] = "holds"
            elif any(v == "sat" for v in vs):
                k = vs.index("sat")
                model = verdicts[k]["model"]
                env = dict(env0)
                env.update(model)
                rep = self.replay_float(tr, args, env)
                if not rep[label]["ok"]:
                    ob["status"] = "violated"
                    ob["counterexample"] = {"inputs": {kk: str(vv) for kk, vv in env.items()}, "label": label,
                                            "entry": k, "impl": rep[label]["impl"], "oracle": rep[label]["oracle"],
                                            "max_abs_err": rep[label]["max_abs_err"],
                                            "found_by": "z3 model of impl != oracle"}
                    if replay_dir:
                        os.makedirs(replay_dir, exist_ok=True)
                        path = os.path.join(replay_dir, ob["id"].replace("/", "__") + ".json")
                        with open(path, "w") as f:
                            json.dump({"case": self.id, "obligation": ob["id"], "seed": seed,
                                       **ob["counterexample"]}, f, indent=1)
                        ob["replay"] = path
                else:
                    # the solver's model does not separate the two sides in float64: try the seeded point
                    rep0 = self.replay_float(tr, args, env0)
                    ob["status"] = "inconclusive"
                    ob["note"] = "solver model did not reproduce on the real code"
            else:
                ob["status"] = "inconclusive"
                ob["note"] = f"solver verdicts {sorted(set(vs))}"
            ob["wall_s"] = round(time.time() - tt, 2)
            res["obligations"].append(ob)
            log(f"  [{self.id}] {label}: {ob['status']} entries={ob['n_goals']} deg={ob['goal_deg']} "
                f"terms={ob['goal_terms']} solver={ob['solver_s']}s")
        res["sample_inputs"] = {k: str(v) for k, v in list(env0.items())[:12]}

    def replay(self, path, log=print):
        with open(path) as f:
            data = json.load(f)
        dom = PolyDomain()
        fn, args = self.make(dom)
        tr = Traced(fn, args)
        env = {k: Fraction(v) for k, v in data["inputs"].items()}
        rep = self.replay_float(tr, args, env)
        r = rep[data["label"]]
        log(f"replay {data['obligation']}: real code = {r['impl']}\n   oracle = {r['oracle']}\n   max abs err = {r['max_abs_err']}")
        if not r["ok"]:
            log(f"VIOLATION property={self.id.split('/')[0]} replay={path}")
            return 1
        log("counterexample does not reproduce on the current tree")
        return 0
