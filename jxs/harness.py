"""Back end P driver: symbolic run of a real function, obligations, proof, refutation, replay."""
import json
import math
import os
import random
import time
import traceback
from fractions import Fraction

import numpy as np
import z3

from . import poly as P
from .poly import Poly
from .interp import is_sym, Unsupported, Undecided
from .domains import PolyDomain
from .trace import Traced
from prover import xl


# --------------------------------------------------------------------------- symbolic inputs
def sym_array(dom, name, shape, kind="full", positive=False, unit=False):
    """object array of fresh input variables.  kind: full | lower | upper | diag | symmetric"""
    a = np.empty(shape, dtype=object)
    if len(shape) == 0:
        a[()] = dom.input(name, positive=positive, unit=unit)
        return a
    for idx in np.ndindex(*shape):
        z = False
        if len(shape) >= 2:
            i, j = idx[-2], idx[-1]
            z = (kind == "lower" and i < j) or (kind == "upper" and i > j) or (kind == "diag" and i != j)
        if z:
            a[idx] = Poly()
        else:
            a[idx] = dom.input(name + "_" + "_".join(map(str, idx)), positive=positive, unit=unit)
    return a


def const_array(x):
    from .interp import snap
    x = np.asarray(x, dtype=float)
    o = np.empty(x.shape, dtype=object)
    if x.ndim == 0:
        o[()] = Poly.const(snap(x[()]))
        return o
    of = o.reshape(-1)
    for i, v in enumerate(x.reshape(-1)):
        of[i] = Poly.const(snap(v))
    return o


def scalar(p):
    o = np.empty((), dtype=object)
    o[()] = p
    return o


# --------------------------------------------------------------------------- oracle helper
class Orc:
    """Helpers for oracles written once over numpy arrays of Poly (proof) or floats (replay)."""

    def __init__(self, dom=None):
        self.dom = dom
        self.sym = dom is not None
        self.k = 0

    def arr(self, x):
        if self.sym:
            if is_sym(x):
                return x
            if isinstance(x, Poly):
                return scalar(x)
            return const_array(x)
        return np.asarray(x, dtype=float)

    def zeros(self, shape):
        if self.sym:
            o = np.empty(shape, dtype=object)
            for idx in np.ndindex(*shape):
                o[idx] = Poly()
            if not shape:
                o[()] = Poly()
            return o
        return np.zeros(shape)

    def eye(self, n):
        z = self.zeros((n, n))
        for i in range(n):
            z[i, i] = Poly.const(1) if self.sym else 1.0
        return z

    def const(self, c):
        return Poly.const(c) if self.sym else float(c)

    def name(self, x, label="o"):
        """introduce a named intermediate (keeps hypothesis degrees low)"""
        if not self.sym:
            return x
        if is_sym(x):
            out = np.empty(x.shape, dtype=object)
            for idx in (np.ndindex(*x.shape) if x.ndim else [()]):
                out[idx] = self.name(x[idx], f"{label}_{'_'.join(map(str, idx))}")
            return out
        return self.dom.name_poly(x, label)

    def inv(self, S, label="Sinv"):
        """matrix inverse (assumption: S nonsingular)"""
        if not self.sym:
            return np.linalg.inv(S)
        n = S.shape[0]
        if n == 1:
            w = np.empty((1, 1), dtype=object)
            w[0, 0] = self.dom.div(Poly.const(1), S[0, 0])
            return w
        if n <= 3:
            det = _det(S)
            idet = self.dom.div(Poly.const(1), det)
            adj = _adjugate(S)
            return adj * idet
        W, name = self.dom._fresh_mat(label, (n, n), "inverse")
        E = W.dot(S) - self.eye(n)
        E2 = S.dot(W) - self.eye(n)
        for idx in np.ndindex(n, n):
            self.dom.hyp(E[idx], f"{name}:WS=I")
            self.dom.hyp(E2[idx], f"{name}:SW=I")
        return W

    def div(self, a, b):
        if self.sym:
            return self.dom.div(a, b)
        return a / b

    def sqrt(self, a):
        if self.sym:
            return self.dom.sqrt(a)
        return math.sqrt(a)

    def abs(self, a):
        if self.sym:
            if is_sym(a):
                return np.vectorize(self.dom.abs, otypes=[object])(a)
            return self.dom.abs(a)
        return np.abs(a)

    def gram(self, L):
        return L.dot(L.T)


def _det(M):
    n = M.shape[0]
    if n == 1:
        return M[0, 0]
    tot = Poly()
    for j in range(n):
        if not M[0, j].t:
            continue
        minor = np.delete(np.delete(M, 0, axis=0), j, axis=1)
        tot = tot + M[0, j] * _det(minor) * (-1) ** j
    return tot


def _adjugate(M):
    n = M.shape[0]
    out = np.empty((n, n), dtype=object)
    for i in range(n):
        for j in range(n):
            minor = np.delete(np.delete(M, j, axis=0), i, axis=1)
            out[i, j] = _det(minor) * (-1) ** (i + j) if n > 1 else Poly.const(1)
    return out


# --------------------------------------------------------------------------- results
class CaseResult(dict):
    pass


CURRENT = None


def _flat(x):
    if isinstance(x, np.ndarray):
        return list(x.reshape(-1)) if x.ndim else [x[()]]
    return [x]


ENV_HOOK = None    # optional callable(env) -> None: lets a harness enforce its case assumptions on pinned inputs


def pick_env(dom, var_ids, seed, attempt=0):
    """seeded small rationals; units get perfect squares so fractional powers stay rational"""
    env = _pick_env(dom, var_ids, seed, attempt)
    hook = getattr(dom, "env_hook", None)
    if hook is not None:
        hook(env)
    return env


def _pick_env(dom, var_ids, seed, attempt=0):
    rnd = random.Random(seed * 7919 + attempt * 104729 + 17)
    env = {}
    for v in sorted(var_ids):
        name = P.NAMES[v]
        if v in P.UNITS:
            a, b = rnd.randint(1, 4), rnd.randint(1, 4)
            env[name] = Fraction(a * a, b * b)
        elif v in dom.pos:
            env[name] = Fraction(rnd.randint(1, 9), rnd.randint(1, 4))
        else:
            s = rnd.choice([1, 1, -1])
            env[name] = Fraction(s * rnd.randint(1, 9), rnd.randint(1, 4))
    return env


def poly_to_z3(p, zvars, env):
    """substitute pinned inputs, keep defined variables symbolic"""
    terms = []
    for m, c in p.t.items():
        coef = Fraction(c)
        fac = []
        for v, e in m:
            nm = P.NAMES[v]
            if nm in env:
                b = env[nm]
                if isinstance(e, int):
                    coef *= b ** e if e >= 0 else Fraction(1) / (b ** (-e))
                else:
                    ee = Fraction(e)
                    assert ee.denominator == 2, ee
                    rn, rd = math.isqrt(b.numerator), math.isqrt(b.denominator)
                    assert rn * rn == b.numerator and rd * rd == b.denominator
                    r = Fraction(rn, rd)
                    k = ee.numerator
                    coef *= r ** k if k >= 0 else Fraction(1) / (r ** (-k))
            else:
                x = zvars.setdefault(v, z3.Real(nm))
                assert isinstance(e, int) and e > 0, (nm, e)
                fac.extend([x] * e)
        t = z3.RealVal(str(coef))
        for x in fac:
            t = t * x
        terms.append(t)
    if not terms:
        return z3.RealVal(0)
    return z3.Sum(terms) if len(terms) > 1 else terms[0]


def exact_query(dom, goals, env, timeout_ms=20000, want_goal=True):
    """z3 (nonlinear real arithmetic) on hypotheses AND some goal != 0, inputs pinned to env."""
    zvars = {}
    s = z3.Solver()
    s.set("timeout", int(timeout_ms))
    alg = dom.alg_atoms
    for h in dom.hyps:
        s.add(poly_to_z3(h, zvars, env) == 0)
    if want_goal:
        s.add(z3.Or([poly_to_z3(g, zvars, env) != 0 for g in goals]))
    for v, x in list(zvars.items()):
        if v in dom.pos:
            s.add(x > 0)
        elif v in dom.nonneg:
            s.add(x >= 0)
    t = time.time()
    r = str(s.check())
    return r, time.time() - t, len(zvars)


def _pinned_sign(dom, pred, sigma, env, timeout_ms=4000):
    """is sigma * pred > 0 at the pinned inputs?  (z3 NRA on the hypotheses with all inputs fixed)"""
    zv = {}
    s = z3.Solver()
    s.set("timeout", int(timeout_ms))
    for h in dom.hyps:
        s.add(poly_to_z3(h, zv, env) == 0)
    e = poly_to_z3(pred, zv, env)
    s.add(e > 0 if sigma > 0 else e < 0)
    for v, x in list(zv.items()):
        if v in dom.pos:
            s.add(x > 0)
        elif v in dom.nonneg:
            s.add(x >= 0)
    return str(s.check()) == "sat"


def branch_env(dom, pred, sigma, base_env, input_vars, timeout_ms=15000):
    """inputs on a prescribed side of an undecided comparison (sigma * pred > 0).  First a solver-decided search along the
    ray through the sampled point (all non-unit inputs scaled by a common factor; every candidate is decided by z3 with
    the inputs pinned), then a free z3 NRA query with only the unit variables pinned.  None if neither finds inputs."""
    names = {P.NAMES[v] for v in input_vars}
    for lam in (Fraction(1), Fraction(1, 10 ** 3), Fraction(1, 10 ** 6), Fraction(1, 10 ** 9), Fraction(1, 10 ** 12),
                Fraction(10 ** 3), Fraction(10 ** 6)):
        env = {n: (v if (P.IDS.get(n) in P.UNITS or n not in names) else v * lam) for n, v in base_env.items()}
        try:
            if _pinned_sign(dom, pred, sigma, env):
                return env
        except Exception:   # noqa: BLE001
            continue
    pinned = {n: v for n, v in base_env.items() if P.IDS.get(n) in P.UNITS}
    zv = {}
    s = z3.Solver()
    s.set("timeout", int(timeout_ms))
    for h in dom.hyps:
        s.add(poly_to_z3(h, zv, pinned) == 0)
    e = poly_to_z3(pred, zv, pinned)
    s.add(e > 0 if sigma > 0 else e < 0)
    for v, x in list(zv.items()):
        if v in dom.pos:
            s.add(x > 0)
        elif v in dom.nonneg:
            s.add(x >= 0)
        if v in input_vars:
            s.add(x <= 1000, x >= -1000)
    if str(s.check()) != "sat":
        return None
    m = s.model()
    env = dict(base_env)
    for v in input_vars:
        if v in zv:
            val = m.eval(zv[v], model_completion=True)
            try:
                env[P.NAMES[v]] = Fraction(val.numerator_as_long(), val.denominator_as_long())
            except Exception:   # noqa: BLE001  (algebraic number: rational approximation)
                a = val.approx(30)
                env[P.NAMES[v]] = Fraction(a.numerator_as_long(), a.denominator_as_long())
    return env


def close(a, b, rtol=1e-6, atol=1e-8):
    a = np.asarray(a, dtype=float); b = np.asarray(b, dtype=float)
    if a.shape != b.shape:
        return False, float("inf")
    if a.size == 0:
        return True, 0.0
    if not (np.all(np.isfinite(a)) and np.all(np.isfinite(b))):
        same = np.array_equal(np.isnan(a), np.isnan(b)) and np.array_equal(a[np.isfinite(a)], b[np.isfinite(b)])
        return bool(same), float("nan")
    scale = max(1.0, float(np.max(np.abs(b))), float(np.max(np.abs(a))))
    err = float(np.max(np.abs(a - b)))
    return err <= atol + rtol * scale, err


class PCase:
    """One configuration of a back-end-P harness.

    Subclass / construct with:
      make(dom) -> (fn, args)         args: pytree, leaves numeric or object arrays of Poly
      goals(args, out, orc) -> dict   label -> (impl, oracle) arrays; written polymorphically
    """

    def __init__(self, case_id, make, goals, *, extra_deg=2, budget_s=240.0, max_rows=120000,
                 validate=True, interp_kw=None, assumptions=(), per_entry=False, deepen=1, sq_mode="all",
                 exact_timeout_ms=20000, dce=False):
        self.id = case_id
        self.make = make
        self.goals = goals
        self.extra_deg = extra_deg
        self.budget_s = budget_s
        self.max_rows = max_rows
        self.validate = validate
        self.interp_kw = interp_kw or {}
        self.assumptions = list(assumptions)
        self.per_entry = per_entry
        self.deepen = deepen
        self.sq_mode = sq_mode
        self.exact_timeout_ms = exact_timeout_ms
        self.dce = dce

    def run(self, seed=0, log=print, replay_dir=None):
        t0 = time.time()
        res = CaseResult(case=self.id, obligations=[], status="ok", notes=[])
        global CURRENT
        CURRENT = res
        try:
            self._run(res, seed, log, replay_dir)
        except (Unsupported, Undecided) as ex:
            if "division by the constant zero" in str(ex) and self._definedness_violation(res, seed, log, replay_dir):
                pass
            else:
                res["status"] = "inconclusive"
                res["notes"].append(f"{type(ex).__name__}: {ex}")
                log(f"  [{self.id}] INCONCLUSIVE {type(ex).__name__}: {ex}")
        except Exception as ex:  # harness error
            res["status"] = "error"
            res["notes"].append(traceback.format_exc())
            log(f"  [{self.id}] HARNESS ERROR {ex!r}\n{traceback.format_exc()}")
        res["wall_s"] = round(time.time() - t0, 2)
        return res

    def _definedness_violation(self, res, seed, log, replay_dir):
        """the symbolic run met a division by an EXACT zero (a structural zero, for every input).  Replay the real code at
        the sampled inputs: non-finite outputs there are reported as a violation of definedness."""
        try:
            dom = PolyDomain()
            dom.symbolic_sign_preds = True
            fn, args = self.make(dom)
            tr = Traced(fn, args, dce=self.dce)
            env = pick_env(dom, set(tr.input_vars), seed, attempt=0)
            import jax
            real = tr.run_real(env)
            leaves = [np.asarray(x, dtype=float) for x in jax.tree_util.tree_leaves(real) if np.asarray(x).dtype.kind in "fiub"]
            bad = [x for x in leaves if not np.all(np.isfinite(x))]
        except Exception:   # noqa: BLE001
            return False
        if not bad:
            return False
        label = "every operation is defined (the real code returns finite values)"
        ob = {"id": f"{self.id}/{label}", "status": "violated", "n_goals": 1,
              "counterexample": {"inputs": {k: str(v) for k, v in env.items()}, "label": label,
                                 "found_by": "division by a structurally zero quantity in the symbolic run; real code replayed at the "
                                             "sampled inputs returns non-finite values",
                                 "non_finite_leaves": len(bad)}}
        if replay_dir:
            os.makedirs(replay_dir, exist_ok=True)
            path = os.path.join(replay_dir, ob["id"].replace("/", "__") + ".json")
            with open(path, "w") as f:
                json.dump({"case": self.id, "obligation": ob["id"], "label": label, "seed": seed, "attempt": 0,
                           "definedness": True, **ob["counterexample"]}, f, indent=1)
            ob["replay"] = path
        res["obligations"].append(ob)
        log(f"  [{self.id}] {label}: violated")
        return True

    def replay(self, path, log=print):
        """re-run a stored counterexample against the real code (no solver involved)"""
        with open(path) as f:
            data = json.load(f)
        dom = PolyDomain()
        dom.symbolic_sign_preds = True     # undecided comparisons become sign atoms instead of aborting the case
        fn, args = self.make(dom)
        tr = Traced(fn, args, dce=self.dce)
        env = {k: Fraction(v) for k, v in data["inputs"].items()}
        if data.get("definedness"):
            import jax
            real = tr.run_real(env)
            bad = [x for x in jax.tree_util.tree_leaves(real) if np.asarray(x).dtype.kind in "fiub"
                   and not np.all(np.isfinite(np.asarray(x, dtype=float)))]
            log(f"replay {data['obligation']}: {len(bad)} non-finite output arrays on the real code")
            if bad:
                log(f"VIOLATION property={self.id.split('/')[0]} replay={path}")
                return 1
            log("counterexample does not reproduce on the current tree")
            return 0
        rep = self.replay_float(tr, args, env)
        label = data["label"]
        r = rep[label]
        log(f"replay {data['obligation']}: real code = {r['impl']}\n   oracle = {r['oracle']}\n   max abs err = {r['max_abs_err']}")
        if not r["ok"]:
            log(f"VIOLATION property={self.id.split('/')[0]} replay={path}")
            return 1
        log("counterexample does not reproduce on the current tree")
        return 0

    def _args_float(self, args, env):
        import jax
        from .trace import leaves_to_float
        leaves, td = jax.tree_util.tree_flatten(args, is_leaf=lambda x: isinstance(x, np.ndarray) and x.dtype == object)
        return jax.tree_util.tree_unflatten(td, leaves_to_float(leaves, env))

    def replay_float(self, tr, args, env):
        out_real = tr.run_real(env)
        af = self._args_float(args, env)
        pairs = self.goals(af, out_real, Orc(None))
        rep = {}
        for label, (a, b) in pairs.items():
            ok, err = close(a, b)
            rep[label] = {"ok": bool(ok), "max_abs_err": err,
                          "impl": np.asarray(a, dtype=float).reshape(-1).tolist()[:16],
                          "oracle": np.asarray(b, dtype=float).reshape(-1).tolist()[:16]}
        return rep

    def _run(self, res, seed, log, replay_dir):
        dom = PolyDomain()
        self.dom = dom
        t = time.time()
        dom.symbolic_sign_preds = True     # undecided comparisons become sign atoms instead of aborting the case
        fn, args = self.make(dom)
        tr = Traced(fn, args, dce=self.dce)
        self.tr = tr
        out = tr.run_symbolic(dom, **self.interp_kw)
        it = tr.last_interp
        res["encoded"] = {"jaxpr_eqns": tr.n_eqns(), "eqns_interpreted": it.n_eqns,
                          "primitives": dict(sorted(it.prims_seen.items())),
                          "contracts": [list(map(str, n)) for n in dom.notes][:40],
                          "trace_interp_s": round(time.time() - t, 2)}
        n_impl_hyps = len(dom.hyps)
        pairs = self.goals(args, out, Orc(dom))
        res["encoded"]["hyps_impl"] = n_impl_hyps
        res["encoded"]["hyps_total"] = len(dom.hyps)
        res["encoded"]["max_hyp_deg"] = max((h.deg() for h in dom.hyps), default=0)
        res["encoded"]["definedness_conditions"] = len(dom.nonzero) + len(dom.nonneg_conds)
        input_vars = set(tr.input_vars)
        for g in dom.hyps:
            pass
        # --- translator validation (interpreter in the float domain vs the real JAX runtime)
        env0 = pick_env(dom, input_vars, seed, attempt=0)
        if self.validate:
            import jax
            try:
                okv, worst, nleaves, tried = False, 0.0, 0, 0
                # (a factor whose row sign is decided by rounding noise at one sample may come out with either sign in two
                #  runs of the same LAPACK routine: another seeded sample is tried before the translation is called wrong)
                for att in range(3):
                    envv = env0 if att == 0 else pick_env(dom, input_vars, seed, attempt=10 + att)
                    real = tr.run_real(envv)
                    fl = tr.run_float_interp(envv, **self.interp_kw)
                    lr = jax.tree_util.tree_leaves(real); lf = jax.tree_util.tree_leaves(fl)
                    worst = 0.0
                    okv = True
                    for a, b in zip(lr, lf):
                        if np.asarray(a).dtype.kind not in "fiub":
                            continue
                        o, e = close(np.asarray(b, dtype=float), np.asarray(a, dtype=float), rtol=1e-7, atol=1e-9)
                        okv = okv and o
                        if e == e:
                            worst = max(worst, e)
                    nleaves, tried = len(lr), att + 1
                    if okv:
                        break
                res["translator_validation"] = {"ok": bool(okv), "max_abs_err": worst, "leaves": nleaves, "samples_tried": tried}
                if not okv:
                    res["status"] = "inconclusive"
                    res["notes"].append("translator validation failed: interpreter(float) != real JAX")
                    log(f"  [{self.id}] translator validation FAILED (err {worst})")
                    return
            except Unsupported as ex:
                res["translator_validation"] = {"ok": None, "note": str(ex)}
        # --- vacuity witness: the hypotheses (contracts, definitions, case assumptions) are satisfiable at the sampled inputs;
        # an inconsistent system would discharge every obligation
        if dom.hyps:
            try:
                vr, vts, vnv = exact_query(dom, [Poly.const(1)], env0, timeout_ms=int(os.environ.get("VERIF_VACUITY_MS", "5000")))
            except Exception as ex:   # noqa: BLE001
                vr, vts, vnv = f"error:{ex!r}", 0.0, 0
            res["vacuity"] = {"hypotheses_satisfiable_at_sample": vr, "solver_s": round(vts, 2), "free_vars": vnv}
            if vr == "unsat":
                res["status"] = "inconclusive"
                res["notes"].append("hypotheses are inconsistent at the sampled inputs: every obligation would be vacuous")
                log(f"  [{self.id}] VACUOUS: hypotheses inconsistent at the sampled inputs")
                return
        # --- obligations
        # cheap screen first: the real code vs the oracle in float64 at the seeded point.  A discrepancy
        # there goes straight to refutation (exact query + replay); agreement decides nothing.
        try:
            rep0 = self.replay_float(tr, args, env0)
        except Exception as ex:   # noqa: BLE001
            rep0 = None
            res["notes"].append(f"float screen failed: {ex!r}")
        # undecided comparisons in the code (guards, clamps, max/min): the seeded point lies on one side of each; ask the
        # solver for inputs on either side and screen there too
        branch_reps = []
        for pred in list(getattr(dom, "branch_preds", []))[:4]:
            for sigma in (-1, 1):
                try:
                    benv = branch_env(dom, pred, sigma, env0, input_vars)
                    if benv is not None and benv != env0:
                        branch_reps.append((pred, sigma, benv, self.replay_float(tr, args, benv)))
                except Exception as ex:   # noqa: BLE001
                    res["notes"].append(f"branch screen failed for {str(pred)[:60]}: {ex!r}")
        res["encoded"]["undecided_comparisons"] = len(getattr(dom, "branch_preds", []))
        res["encoded"]["branch_points_screened"] = len(branch_reps)
        deadline = float(os.environ.get("VERIF_DEADLINE", "0")) or None
        for label, (a, b) in pairs.items():
            la, lb = _flat(a), _flat(b)
            shape_bad = np.shape(a) != np.shape(b)
            if shape_bad:
                lb = (lb + [Poly()] * len(la))[:len(la)]
            assert len(la) == len(lb), (label, len(la), len(lb))
            goals = [x - y for x, y in zip(la, lb)]
            ob = {"id": f"{self.id}/{label}", "n_goals": len(goals),
                  "goal_deg": max((g.deg() for g in goals if isinstance(g, Poly)), default=0),
                  "goal_terms": sum(g.nterms() for g in goals)}
            tt = time.time()
            pr = xl.Result()
            pr.status = "not_proved"
            screened_bad = shape_bad or (rep0 is not None and label in rep0 and not rep0[label]["ok"])
            branch_hit = next(((pr_, sg_, en_, rp_) for (pr_, sg_, en_, rp_) in branch_reps
                               if label in rp_ and not rp_[label]["ok"]), None)
            screened_bad = screened_bad or branch_hit is not None
            if not screened_bad:
                for extra in range(self.extra_deg, self.extra_deg + self.deepen + 1):
                    budget = self.budget_s
                    if deadline:
                        budget = max(5.0, min(budget, deadline - time.time() - 20.0))
                    pr = xl.prove_with_cancellation(dom.hyps, goals, alg_atoms=dom.alg_atoms, sq_atoms=dom.sq_atoms,
                                  inv_atoms=dom.inv_atoms, defined=dom.defined, extra_deg=extra, sq_mode=self.sq_mode,
                                  budget_s=budget, max_rows=self.max_rows,
                                  log=(log if os.environ.get("VERIF_VERBOSE") else None))
                    if pr.status in ("proved", "trivial"):
                        break
                    if deadline and deadline - time.time() < 40.0:
                        break
            ob["prover"] = pr.as_dict()
            ob["prover"].pop("goal_status", None)
            ob["status"] = pr.status
            if pr.status == "trivial" and any(isinstance(x, Poly) and x.t for x in la) and \
                    sum(x.nterms() + y.nterms() for x, y in zip(la, lb)) <= 1500 and \
                    not any((x.vars() | y.vars()) & (set(dom.inv_atoms) | set(dom.sq_atoms)) or
                            any(not isinstance(e, int) or e < 0 for m in list(x.t) + list(y.t) for _, e in m)
                            for x, y in zip(la, lb)):
                # both sides have the same polynomial normal form: let the solver confirm impl != oracle is unsat
                from .direct import decide_identities
                vd = decide_identities(list(zip(la, lb)), timeout_ms=10000)
                ob["prover"]["queries"] = len(vd)
                ob["prover"]["solver_s"] = round(sum(v["solver_s"] for v in vd), 3)
                ob["direct_identity_verdicts"] = sorted(set(v["verdict"] for v in vd))
                ob["nontrivial"] = True
            if pr.status == "not_proved":
                self._refute(ob, tr, args, dom, goals, label, seed, log, replay_dir, branch_hit=branch_hit)
            ob["wall_s"] = round(time.time() - tt, 2)
            res["obligations"].append(ob)
            log(f"  [{self.id}] {label}: {ob['status']} goals={ob['n_goals']} deg={ob['goal_deg']} "
                f"rows={pr.rows} monos={pr.monos} {ob['wall_s']}s")
        res["sample_inputs"] = {k: str(v) for k, v in list(env0.items())[:12]}

    def _refute(self, ob, tr, args, dom, goals, label, seed, log, replay_dir, branch_hit=None):
        input_vars = set(tr.input_vars)
        tries = []
        if branch_hit is not None:
            pred, sigma, env, rep = branch_hit
            ob["status"] = "violated"
            ob["counterexample"] = {"inputs": {k: str(v) for k, v in env.items()}, "label": label,
                                    "impl": rep[label]["impl"], "oracle": rep[label]["oracle"],
                                    "max_abs_err": rep[label]["max_abs_err"],
                                    "found_by": f"z3: inputs with ({str(pred)[:60]}) {'>' if sigma > 0 else '<'} 0, replayed on the real code"}
            if replay_dir:
                os.makedirs(replay_dir, exist_ok=True)
                path = os.path.join(replay_dir, ob["id"].replace("/", "__") + ".json")
                with open(path, "w") as f:
                    json.dump({"case": self.id, "obligation": ob["id"], "label": label, "seed": seed, "attempt": 0,
                               **ob["counterexample"]}, f, indent=1)
                ob["replay"] = path
            ob["refutation"] = [{"branch": str(pred)[:80], "side": sigma, "replay_discrepancy": True}]
            return
        for attempt in range(3):
            env = pick_env(dom, input_vars, seed, attempt=attempt)
            rep = self.replay_float(tr, args, env)
            bad = not rep[label]["ok"]
            entry = {"attempt": attempt, "replay_discrepancy": bad, "max_abs_err": rep[label]["max_abs_err"]}
            if bad:
                try:
                    r, ts, nv = exact_query(dom, [g for g in goals if g.t], env, timeout_ms=self.exact_timeout_ms)
                except Exception as ex:
                    r, ts, nv = f"error:{ex!r}", 0.0, 0
                entry.update({"exact_query": r, "solver_s": round(ts, 2), "free_vars": nv})
                tries.append(entry)
                ob["status"] = "violated"
                ob["counterexample"] = {"inputs": {k: str(v) for k, v in env.items()}, "label": label,
                                        "impl": rep[label]["impl"], "oracle": rep[label]["oracle"],
                                        "max_abs_err": rep[label]["max_abs_err"],
                                        "exact_query_pinned": r,
                                        "found_by": "z3 exact query at pinned inputs" if r == "sat"
                                        else "pinned inputs replayed on the real code (exact query: %s)" % r}
                if replay_dir:
                    os.makedirs(replay_dir, exist_ok=True)
                    path = os.path.join(replay_dir, ob["id"].replace("/", "__") + ".json")
                    with open(path, "w") as f:
                        json.dump({"case": self.id, "obligation": ob["id"], "label": label, "seed": seed,
                                   "attempt": attempt, **ob["counterexample"]}, f, indent=1)
                    ob["replay"] = path
                break
            tries.append(entry)
        # undecided comparisons in the code (guards, clamps, max/min): ask the solver for inputs on either side of each
        # and replay there -- the seeded points above all lie on one side
        if ob["status"] == "not_proved":
            base = pick_env(dom, input_vars, seed, attempt=0)
            for pred in list(getattr(dom, "branch_preds", []))[:4]:
                for sigma in (-1, 1):
                    try:
                        env = branch_env(dom, pred, sigma, base, input_vars)
                    except Exception as ex:   # noqa: BLE001
                        tries.append({"branch": str(pred)[:80], "side": sigma, "error": repr(ex)})
                        continue
                    if env is None:
                        tries.append({"branch": str(pred)[:80], "side": sigma, "solver": "no inputs found"})
                        continue
                    try:
                        rep = self.replay_float(tr, args, env)
                    except Exception as ex:   # noqa: BLE001
                        tries.append({"branch": str(pred)[:80], "side": sigma, "replay_error": repr(ex)})
                        continue
                    bad = not rep[label]["ok"]
                    tries.append({"branch": str(pred)[:80], "side": sigma, "replay_discrepancy": bad,
                                  "max_abs_err": rep[label]["max_abs_err"]})
                    if bad:
                        ob["status"] = "violated"
                        ob["counterexample"] = {"inputs": {k: str(v) for k, v in env.items()}, "label": label,
                                                "impl": rep[label]["impl"], "oracle": rep[label]["oracle"],
                                                "max_abs_err": rep[label]["max_abs_err"],
                                                "found_by": f"z3: inputs with ({str(pred)[:60]}) {'>' if sigma > 0 else '<'} 0, replayed on the real code"}
                        if replay_dir:
                            os.makedirs(replay_dir, exist_ok=True)
                            path = os.path.join(replay_dir, ob["id"].replace("/", "__") + ".json")
                            with open(path, "w") as f:
                                json.dump({"case": self.id, "obligation": ob["id"], "label": label, "seed": seed,
                                           "attempt": 0, **ob["counterexample"]}, f, indent=1)
                            ob["replay"] = path
                        break
                if ob["status"] == "violated":
                    break
        ob["refutation"] = tries
        if ob["status"] == "not_proved":
            ob["status"] = "inconclusive"


def summarize(results):
    n = p = v = i = 0
    for r in results:
        for o in r["obligations"]:
            n += 1
            p += o["status"] in ("proved", "trivial")
            v += o["status"] == "violated"
            i += o["status"] == "inconclusive"
    return n, p, v, i
