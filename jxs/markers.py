"""Marker primitives: uninterpreted functions and probes that survive tracing.

verif_uf(name, *args, shape)  an uninterpreted function of its (real) arguments -- "arbitrary
                              vector field value", "arbitrary error profile".  Only an abstract
                              evaluation rule exists: it can be traced, never executed.
verif_probe(tag, *args)       identity on its arguments; the interpreter records the path guard
                              and the symbolic arguments of every call.
"""
import numpy as np
import jax
import jax.numpy as jnp
from jax.extend import core as jcore
from jax.interpreters import batching

uf_p = jcore.Primitive("verif_uf")


def _uf_abs(*args, name, shape, nbatch):
    bshape = ()
    if nbatch:
        for a in args:
            if a.ndim >= nbatch:
                bshape = a.shape[:nbatch]
                break
    return jax.core.ShapedArray(tuple(bshape) + tuple(shape), jnp.float64)


uf_p.def_abstract_eval(_uf_abs)


def UF(name, *args, shape=()):
    args = [jnp.asarray(a, dtype=jnp.float64) for a in args]
    return uf_p.bind(*args, name=name, shape=tuple(shape), nbatch=0)


_NM = getattr(batching, "not_mapped", None)


def _uf_batch(args, dims, *, name, shape, nbatch):
    size = next(a.shape[d] for a, d in zip(args, dims) if d is not None and d is not _NM)
    moved = []
    for a, d in zip(args, dims):
        if d is None or d is _NM:
            a = jnp.broadcast_to(a, (size,) + a.shape)
            moved.append(a)
        else:
            moved.append(jnp.moveaxis(a, d, 0))
    out = uf_p.bind(*moved, name=name, shape=shape, nbatch=nbatch + 1)
    return out, 0


batching.primitive_batchers[uf_p] = _uf_batch

probe_p = jcore.Primitive("verif_probe")
probe_p.multiple_results = True
probe_p.def_abstract_eval(lambda *a, tag: list(a))
probe_p.def_impl(lambda *a, tag: list(a))


def PROBE(tag, *args):
    return probe_p.bind(*[jnp.asarray(a) for a in args], tag=tag)


def _probe_batch(args, dims, *, tag):
    return probe_p.bind(*args, tag=tag), list(dims)


batching.primitive_batchers[probe_p] = _probe_batch


def install(interp):
    from .interp import is_sym
    interp.probes = getattr(interp, "probes", [])

    def h_uf(it, e, invals):
        name = e.params["name"]; shape = tuple(e.params["shape"]); nb = e.params["nbatch"]
        args = [it.obj(a) for a in invals]

        def one(av):
            flat = tuple(x for a in av for x in (a.reshape(-1).tolist() if a.ndim else [a[()]]))
            out = np.empty(shape, dtype=object)
            if not shape:
                out[()] = it.dom.uf(name, flat)
            else:
                for k, idx in enumerate(np.ndindex(*shape)):
                    out[idx] = it.dom.uf(f"{name}[{k}]", flat)
            return out
        if nb == 0:
            return [one(args)]
        bshape = e.outvars[0].aval.shape[:nb]
        out = np.empty(tuple(bshape) + shape, dtype=object)
        for bidx in np.ndindex(*bshape):
            out[bidx] = one([np.asarray(a[bidx], dtype=object) for a in args])
        return [out]

    def h_probe(it, e, invals):
        it.probes.append({"tag": e.params["tag"], "guard": it.guard(), "scan": list(it.scan_ctx),
                          "args": [a if is_sym(a) else np.asarray(a) for a in invals]})
        return list(invals)

    interp.handlers["verif_uf"] = h_uf
    interp.handlers["verif_probe"] = h_probe
