"""Tracing of real probdiffeq functions to jaxprs and (a)symbolic evaluation of them."""
import os
import sys

os.environ.setdefault("JAX_PLATFORMS", "cpu")
os.environ.setdefault("XLA_FLAGS", "--xla_cpu_multi_thread_eigen=false intra_op_parallelism_threads=1")
os.environ["PROBDIFFEQ_VERIF"] = "1"

import numpy as np
import jax

jax.config.update("jax_enable_x64", True)
import jax.numpy as jnp

REPO = os.environ.get("VERIF_REPO", "/repo")
if REPO not in sys.path:
    sys.path.insert(0, REPO)


def check_repo_import():
    import probdiffeq
    path = os.path.realpath(os.path.dirname(probdiffeq.__file__))
    want = os.path.realpath(os.path.join(REPO, "probdiffeq"))
    if path != want:
        raise RuntimeError(f"probdiffeq imported from {path}, expected {want}")
    return path


from .interp import Interp, is_sym
from .domains import PolyDomain, FloatDomain
from .poly import Poly


def leaves_to_float(leaves, env):
    out = []
    for l in leaves:
        if is_sym(l):
            a = np.empty(l.shape, dtype=np.float64)
            if l.ndim == 0:
                a[()] = float(l[()].eval(env))
            else:
                af = a.reshape(-1)
                for i, p in enumerate(l.reshape(-1)):
                    af[i] = float(p.eval(env)) if isinstance(p, Poly) else float(p)
            out.append(a)
        else:
            out.append(np.asarray(l))
    return out


class Traced:
    """fn(*args) with args a pytree whose leaves are numeric arrays or object arrays of Poly."""

    def __init__(self, fn, args, default_env=None, dce=False):
        self.fn = fn
        self.leaves, self.treedef = jax.tree_util.tree_flatten(
            args, is_leaf=lambda x: isinstance(x, np.ndarray) and x.dtype == object)
        names = set()
        for l in self.leaves:
            if is_sym(l):
                for p in l.reshape(-1):
                    if isinstance(p, Poly):
                        names |= p.vars()
        self.input_vars = names
        env = default_env or {}
        self.example = leaves_to_float(self.leaves, _DefaultEnv(env))

        def flat(*leaves):
            a = jax.tree_util.tree_unflatten(self.treedef, leaves)
            return fn(*a)

        self.flat = flat
        self.closed, self.out_shape = jax.make_jaxpr(flat, return_shape=True)(*[jnp.asarray(x) for x in self.example])
        self.out_tree = jax.tree_util.tree_structure(self.out_shape)
        if dce:
            # dead-code elimination by JAX itself: equations that do not feed the returned values are dropped (they would
            # only add contract hypotheses that no obligation can use)
            from jax._src.interpreters import partial_eval as pe
            jaxpr, used_in = pe.dce_jaxpr(self.closed.jaxpr, [True] * len(self.closed.jaxpr.outvars), instantiate=True)
            assert all(used_in), "dce dropped an input"
            self.closed = jax.extend.core.ClosedJaxpr(jaxpr, self.closed.consts)

    def n_eqns(self):
        return count_eqns(self.closed.jaxpr)

    def run(self, dom, leaves=None, **interp_kw):
        it = Interp(dom, **interp_kw)
        if hasattr(dom, "install"):
            dom.install(it)
        from . import markers
        markers.install(it)
        outs = it.eval(self.closed.jaxpr, self.closed.consts, self.leaves if leaves is None else leaves)
        self.last_interp = it
        return jax.tree_util.tree_unflatten(self.out_tree, outs)

    def run_symbolic(self, dom, **kw):
        return self.run(dom, **kw)

    def run_real(self, env):
        """the real function on the real JAX runtime (float64), no interpreter involved"""
        vals = leaves_to_float(self.leaves, env)
        out = self.flat(*[jnp.asarray(v) for v in vals])
        return jax.tree_util.tree_map(np.asarray, out)

    def run_float_interp(self, env, **kw):
        """same jaxpr through the interpreter's symbolic paths in the float domain"""
        vals = leaves_to_float(self.leaves, env)
        fl = []
        for v, l in zip(vals, self.leaves):
            if is_sym(l):
                o = np.empty(v.shape, dtype=object)
                if v.ndim == 0:
                    o[()] = float(v)
                else:
                    of = o.reshape(-1)
                    for i, x in enumerate(v.reshape(-1)):
                        of[i] = float(x)
                fl.append(o)
            else:
                fl.append(v)
        out = self.run(FloatDomain(), leaves=fl, **kw)
        return jax.tree_util.tree_map(lambda a: np.asarray(a, dtype=float) if is_sym(a) else np.asarray(a), out,
                                      is_leaf=lambda x: isinstance(x, np.ndarray))


class _DefaultEnv(dict):
    def __init__(self, base):
        super().__init__(base)

    def __contains__(self, k):
        return True

    def __getitem__(self, k):
        if dict.__contains__(self, k):
            return dict.__getitem__(self, k)
        from . import poly as P
        if isinstance(k, int) and dict.__contains__(self, P.NAMES[k]):
            return dict.__getitem__(self, P.NAMES[k])
        return 1.0


def count_eqns(jaxpr):
    n = 0
    for e in jaxpr.eqns:
        n += 1
        for v in e.params.values():
            for sub in (v if isinstance(v, (tuple, list)) else [v]):
                j = getattr(sub, "jaxpr", None)
                if j is not None and hasattr(j, "eqns"):
                    n += count_eqns(j)
                elif hasattr(sub, "eqns"):
                    n += count_eqns(sub)
    return n
