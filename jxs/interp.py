"""Jaxpr interpreter, generic in a scalar domain (exact polynomials, z3 terms, floats).

Values are either *concrete* (numeric numpy arrays; executed by binding the real JAX
primitive) or *symbolic* (numpy object arrays whose entries are domain scalars).
Data-movement primitives on symbolic operands are executed by running the real primitive on
arrays of element ids and mapping the ids back, so their semantics are JAX's own.
"""
import math
from fractions import Fraction

import numpy as np
import jax
import jax.numpy as jnp
from jax.extend import core as jcore


class Unsupported(Exception):
    pass


class Undecided(Exception):
    """a symbolic predicate could not be decided in a domain that requires decisions"""


# primitives that only move data around
STRUCT = {
    "broadcast_in_dim", "reshape", "transpose", "concatenate", "slice", "squeeze", "pad", "rev",
    "split", "stack", "unstack", "tile", "dynamic_slice", "dynamic_update_slice", "gather", "scatter", "expand_dims",
    "select_n", "copy", "copy_p", "real", "reduce_precision", "optimization_barrier",
}
# leaf primitives that must be evaluated exactly even on concrete operands (floats)
EXACT = {"sqrt", "rsqrt", "exp", "exp2", "log", "log1p", "pow", "div", "lgamma", "integer_pow", "hypot",
         "tanh", "logistic", "sin", "cos", "erf_inv", "cbrt"}

CALLS = {"jit", "pjit", "closed_call", "core_call", "remat", "checkpoint", "custom_lin"}


def is_sym(a):
    return isinstance(a, np.ndarray) and a.dtype == object


def to_np(x):
    """numpy view of a concrete value; PRNG-key (extended dtype) arrays stay jax arrays"""
    try:
        return np.asarray(x)
    except TypeError:
        return x


def snap(x):
    """float -> the exact Fraction it denotes, except that floats within 1e-13 (relative) of an
    integer, of p/q with q <= 10^4, or of 1/n are read as that rational (assumption A7: such
    constants come from float evaluation of exact small rationals, e.g. 1/3 or exp(lgamma(3)))."""
    x = float(x)
    if x != x or x in (float("inf"), float("-inf")):
        raise Unsupported(f"non-finite constant {x}")
    f = Fraction(x)
    if f.denominator == 1:
        return f
    tol = 1e-13 * max(1.0, abs(x))
    g = f.limit_denominator(10 ** 4)
    if abs(float(g) - x) <= tol * (1.0 if abs(x) >= 1e-3 else abs(x) * 1e3):
        return g
    if x != 0.0 and abs(x) < 1.0:
        r = 1.0 / x
        n = round(r)
        if n != 0 and abs(r - n) <= 1e-13 * abs(r) and abs(n) < 10 ** 18:
            return Fraction(1, n)
    if abs(x) >= 1.0:
        n = round(x)
        if abs(x - n) <= 1e-13 * abs(x) and abs(n) < 10 ** 15:
            return Fraction(n)
    return f


class Interp:
    def __init__(self, dom, while_bound=8, on_while=None):
        self.dom = dom
        self.while_bound = while_bound
        self.on_while = on_while  # callback(info dict) for unwinding conditions
        self.prims_seen = {}
        self.n_eqns = 0
        self.guards = []          # stack of domain booleans (path condition), for markers
        self.unwinding = []       # list of (label, residual-condition) from symbolic while loops
        self.scan_ctx = []        # indices of the enclosing (unrolled) scan iterations
        self.while_depth = 0      # nesting depth of symbolic while loops (selects the unrolling bound)
        self.handlers = {}        # primitive name -> fn(interp, eqn, invals) -> list of outs
        self.named_calls = {}     # jit name -> fn(interp, eqn, invals) -> list of outs
        # jnp.hypot is a jitted overflow-safe routine (max/min/inf tests); over the reals it is sqrt(a^2+b^2)
        self.named_calls["solve"] = lambda it, e, iv: (
            [it.dom.solve(it.obj(iv[0]), it.obj(iv[1]))]
            if (any(is_sym(x) for x in iv) or it.dom.exact_concrete) else it.eval_closed(e.params["jaxpr"], iv))
        self.named_calls["hypot"] = lambda it, e, iv: (
            [it.ew(lambda a, b: it.dom.sqrt(it.dom.mul(a, a) + it.dom.mul(b, b)), *iv)]
            if (any(is_sym(x) for x in iv) or it.dom.exact_concrete) else it.eval_closed(e.params["jaxpr"], iv))

        self.named_arity = {"hypot": (2, 1), "solve": (2, 1)}
        self.named_calls["lstsq"] = self._lstsq_call
        self.named_calls["_lstsq"] = self._lstsq_call

    def _lstsq_call(self, it, e, iv):
        """jnp.linalg.lstsq (SVD based): minimum-norm least squares.  1x1 systems are division by the (non-zero, A3)
        entry; larger ones use the normal-equation contract (A4).  Only the solution is modelled: residuals, rank and
        singular values are poisoned so that a goal depending on them cannot be discharged."""
        if not (any(is_sym(x) for x in iv) or it.dom.exact_concrete):
            return it.eval_closed(e.params["jaxpr"], iv)
        arrs = [x for x in iv if np.ndim(x) >= 1]
        A, B = it.obj(arrs[0]), it.obj(arrs[1])

        def one(A, B):
            if A.shape == (1, 1):
                if it.dom.is_zero(A[0, 0]):
                    # minimum-norm least squares of the zero system: the zero solution (this is why the library uses it
                    # where innovations can be exactly singular)
                    return np.vectorize(lambda b: it.dom.const(0), otypes=[object])(B)
                return np.vectorize(lambda b: it.dom.div(b, A[0, 0]), otypes=[object])(B)
            return it.dom.lstsq(A, B)
        if A.ndim == 2:
            X = one(A, B)
        else:
            X = np.stack([one(A[i], B[i]) for i in range(A.shape[0])])
        outs = []
        from .poly import Poly
        for k, ov in enumerate(e.outvars):
            shp = tuple(ov.aval.shape)
            if k == 0:
                assert shp == X.shape, (shp, X.shape)
                outs.append(X)
            elif np.issubdtype(ov.aval.dtype, np.floating):
                a = np.empty(shp, dtype=object)
                for idx in np.ndindex(*shp):
                    a[idx] = it.dom.fresh("lstsq_unmodelled") if hasattr(it.dom, "fresh") else Poly.var("__lstsq_unmodelled__")
                outs.append(a)
            else:
                outs.append(np.zeros(shp, dtype=ov.aval.dtype))
        return outs

    # ------------------------------------------------------------------ helpers
    def obj(self, a):
        """numeric array -> object array of domain constants (exact rationals)."""
        if is_sym(a):
            return a
        a = np.asarray(a)
        out = np.empty(a.shape, dtype=object)
        c = self.dom.const
        if a.dtype == np.bool_:
            conv = self.dom.bool_const
        elif np.issubdtype(a.dtype, np.integer):
            conv = lambda x: c(Fraction(int(x)))
        else:
            conv = lambda x: c(snap(x))
        if a.ndim == 0:
            out[()] = conv(a[()])
            return out
        flat = out.reshape(-1)
        for i, x in enumerate(a.reshape(-1)):
            flat[i] = conv(x)
        return out

    def ew(self, fn, *arrs):
        arrs = [self.obj(a) for a in arrs]
        if len(arrs) == 1:
            a = arrs[0]
            out = np.empty(a.shape, dtype=object)
            if a.ndim == 0:
                out[()] = fn(a[()])
                return out
            of = out.reshape(-1)
            for i, x in enumerate(a.reshape(-1)):
                of[i] = fn(x)
            return out
        shape = np.broadcast_shapes(*[a.shape for a in arrs])
        its = [np.broadcast_to(a, shape).reshape(-1) for a in arrs]
        out = np.empty(shape, dtype=object)
        if out.ndim == 0:
            out[()] = fn(*[it[0] for it in its])
            return out
        of = out.reshape(-1)
        for i in range(of.size):
            of[i] = fn(*[it[i] for it in its])
        return out

    def guard(self):
        return list(self.guards)

    # ------------------------------------------------------------------ structural primitives
    def struct_apply(self, prim, params, invals, concrete_positions=()):
        table = []
        conv = []
        for pos, a in enumerate(invals):
            if pos in concrete_positions and not is_sym(a):
                conv.append(np.asarray(a))
                continue
            if is_sym(a):
                base = len(table)
                table.extend(a.reshape(-1).tolist())
                conv.append(np.arange(base, base + a.size, dtype=np.int64).reshape(a.shape))
            else:
                arr = np.asarray(a)
                oa = self.obj(arr)
                base = len(table)
                table.extend(oa.reshape(-1).tolist())
                conv.append(np.arange(base, base + arr.size, dtype=np.int64).reshape(arr.shape))
        params = dict(params)
        out = prim.bind(*[jnp.asarray(c) for c in conv], **params)
        outs = list(out) if prim.multiple_results else [out]
        res = []
        for o in outs:
            o = np.asarray(o)
            r = np.empty(o.shape, dtype=object)
            if o.ndim == 0:
                r[()] = table[int(o)]
            else:
                rf = r.reshape(-1)
                for i, k in enumerate(o.reshape(-1)):
                    rf[i] = table[int(k)]
            res.append(r)
        return res

    def scatter_add(self, eqn, invals):
        operand, indices, updates = invals
        if is_sym(indices):
            raise Unsupported("scatter-add with symbolic indices")
        prim = eqn.primitive
        p = dict(eqn.params)
        upd = self.obj(updates)
        out = self.obj(operand).copy()
        # place each update element individually: where does element k go?
        n = upd.size
        pos_tab = np.arange(1, n + 1, dtype=np.int64).reshape(upd.shape)
        zero_op = np.zeros(np.shape(operand), dtype=np.int64)
        # try the cheap route first: if no target collides, a single scatter suffices
        counts = np.asarray(prim.bind(jnp.asarray(zero_op), jnp.asarray(indices),
                                      jnp.asarray(np.ones(upd.shape, dtype=np.int64)), **p))
        if counts.max(initial=0) <= 1:
            placed = np.asarray(prim.bind(jnp.asarray(zero_op), jnp.asarray(indices), jnp.asarray(pos_tab), **p))
            uf = upd.reshape(-1)
            for idx in np.ndindex(*placed.shape):
                k = int(placed[idx])
                if k:
                    out[idx] = out[idx] + uf[k - 1]
            return [out]
        uf = upd.reshape(-1)
        for k in range(n):
            mask = np.zeros(upd.shape, dtype=np.int64).reshape(-1)
            mask[k] = 1
            placed = np.asarray(prim.bind(jnp.asarray(zero_op), jnp.asarray(indices),
                                          jnp.asarray(mask.reshape(upd.shape)), **p))
            for idx in zip(*np.nonzero(placed)):
                out[idx] = out[idx] + uf[k] * int(placed[idx])
        return [out]

    # ------------------------------------------------------------------ linear algebra
    def dot_general(self, A, B, dn):
        (ca, cb), (ba, bb) = dn
        A = self.obj(A); B = self.obj(B)
        ca, cb, ba, bb = list(ca), list(cb), list(ba), list(bb)
        fa = [i for i in range(A.ndim) if i not in ca and i not in ba]
        fb = [i for i in range(B.ndim) if i not in cb and i not in bb]
        At = np.transpose(A, ba + fa + ca)
        Bt = np.transpose(B, bb + cb + fb)
        bshape = [A.shape[i] for i in ba]
        fas = [A.shape[i] for i in fa]; fbs = [B.shape[i] for i in fb]
        cs = [A.shape[i] for i in ca]
        nb = int(np.prod(bshape)) if bshape else 1
        na = int(np.prod(fas)) if fas else 1
        nbb = int(np.prod(fbs)) if fbs else 1
        nc = int(np.prod(cs)) if cs else 1
        A3 = At.reshape(nb, na, nc); B3 = Bt.reshape(nb, nc, nbb)
        out = np.empty((nb, na, nbb), dtype=object)
        zero = self.dom.const(0)
        iszero = self.dom.is_zero
        # domains that abstract products (Z3Domain(linearize=True) with linearize_dot) get their own mul
        mul = self.dom.mul if getattr(self.dom, "linearize_dot", False) else (lambda u, v: u * v)
        for b in range(nb):
            for i in range(na):
                row = A3[b, i]
                nz = [k for k in range(nc) if not iszero(row[k])]
                for j in range(nbb):
                    s = zero
                    for k in nz:
                        y = B3[b, k, j]
                        if not iszero(y):
                            s = s + mul(row[k], y)
                    out[b, i, j] = s
        return out.reshape(bshape + fas + fbs)

    def batched(self, fn, arrs, core_ndims):
        """apply fn to the trailing core dims of each array, looping over shared leading batch dims"""
        arrs = [self.obj(a) for a in arrs]
        bshape = arrs[0].shape[: arrs[0].ndim - core_ndims[0]]
        if not bshape:
            return fn(*arrs)
        outs = None
        for idx in np.ndindex(*bshape):
            r = fn(*[a[idx] for a in arrs])
            multi = isinstance(r, (list, tuple))
            rs = list(r) if multi else [r]
            if outs is None:
                outs = [np.empty(bshape + x.shape, dtype=object) for x in rs]
            for o, x in zip(outs, rs):
                o[idx] = x
        return outs if multi else outs[0]

    # ------------------------------------------------------------------ control flow
    def eval_closed(self, cj, args):
        if hasattr(cj, "jaxpr") and hasattr(cj, "consts"):
            return self.eval(cj.jaxpr, cj.consts, args)
        return self.eval(cj, [], args)

    def _truth(self, pred):
        """concrete python bool or None if symbolic & undecidable in this domain"""
        if is_sym(pred):
            return self.dom.decide(pred[()] if pred.ndim == 0 else pred.reshape(-1)[0])
        return bool(np.asarray(pred))

    def merge(self, pred, a_true, a_false):
        """select per output between two lists of arrays, on a scalar symbolic predicate"""
        out = []
        for x, y in zip(a_true, a_false):
            if not is_sym(x) and not is_sym(y) and np.array_equal(np.asarray(x), np.asarray(y)):
                out.append(x)
                continue
            xo, yo = self.obj(x), self.obj(y)
            out.append(self.ew(lambda u, v: self.dom.select(pred, u, v), xo, yo))
        return out

    def do_scan(self, eqn, invals):
        p = eqn.params
        body = p["jaxpr"]
        bj = body.jaxpr if hasattr(body, "consts") else body
        length = p["length"]
        # carries keep their shape across the scan; xs / ys gain a leading axis of size `length`
        ncarry = 0
        for vo, vi in zip(eqn.outvars, bj.outvars):
            if tuple(vo.aval.shape) == tuple(vi.aval.shape):
                ncarry += 1
            else:
                break
        nxs = 0
        for vo, vi in zip(reversed(eqn.invars), reversed(bj.invars)):
            so, si = tuple(vo.aval.shape), tuple(vi.aval.shape)
            if so != si and so == (length,) + si:
                nxs += 1
            else:
                break
        nconst = len(invals) - ncarry - nxs
        assert nconst >= 0
        consts = invals[:nconst]; carry = list(invals[nconst:nconst + ncarry]); xs = invals[nconst + ncarry:]
        reverse = p["reverse"]
        ys = []
        order = range(length - 1, -1, -1) if reverse else range(length)
        for i in order:
            xi = [x[i] for x in xs]
            self.scan_ctx.append(i)
            try:
                outs = self.eval_closed(body, list(consts) + carry + xi)
            finally:
                self.scan_ctx.pop()
            carry = list(outs[:ncarry])
            ys.append(outs[ncarry:])
        if reverse:
            ys = ys[::-1]
        stacked = []
        nys = len(eqn.outvars) - ncarry
        for k in range(nys):
            col = [y[k] for y in ys]
            if not col:
                av = eqn.outvars[ncarry + k].aval
                stacked.append(np.zeros(av.shape, dtype=av.dtype))
            elif any(is_sym(c) for c in col):
                stacked.append(np.stack([self.obj(c) for c in col]))
            else:
                stacked.append(np.stack([np.asarray(c) for c in col]))
        return carry + stacked

    def do_while(self, eqn, invals):
        p = eqn.params
        cn, bn = p["cond_nconsts"], p["body_nconsts"]
        cconsts = invals[:cn]; bconsts = invals[cn:cn + bn]; state = list(invals[cn + bn:])
        it = 0
        # concrete phase
        while True:
            c = self.eval_closed(p["cond_jaxpr"], list(cconsts) + state)[0]
            t = None if (is_sym(c) and self.dom.decide(c[()]) is None) else self._truth(c)
            if t is None:
                break
            if not t:
                return state
            it += 1
            if it > 10000:
                raise Unsupported("concrete while loop exceeds 10000 iterations")
            self.while_depth += 1
            try:
                state = list(self.eval_closed(p["body_jaxpr"], list(bconsts) + state))
            finally:
                self.while_depth -= 1
        # symbolic phase: bounded unrolling with ite-merging
        if not self.dom.can_branch:
            raise Undecided(f"while predicate undecided: {c[()]!r}")
        wb = self.while_bound
        K = wb[min(self.while_depth, len(wb) - 1)] if isinstance(wb, (list, tuple)) else wb
        K = max(0, K - it)       # iterations already executed concretely count towards the bound
        self.while_depth += 1
        for k in range(K):
            c = self.eval_closed(p["cond_jaxpr"], list(cconsts) + state)[0]
            t = None if (is_sym(c) and self.dom.decide(c[()]) is None) else self._truth(c)
            if t is False:
                return state
            cond = c[()] if is_sym(c) else self.dom.bool_const(True)
            self.guards.append(cond)
            new = list(self.eval_closed(p["body_jaxpr"], list(bconsts) + state))
            self.guards.pop()
            state = self.merge(cond, new, state) if t is None else new
        self.while_depth -= 1
        c = self.eval_closed(p["cond_jaxpr"], list(cconsts) + state)[0]
        resid = c[()] if is_sym(c) else self.dom.bool_const(bool(np.asarray(c)))
        self.unwinding.append({"bound": K, "guard": self.guard(), "residual": resid, "depth": self.while_depth,
                               "scan": list(self.scan_ctx)})
        return state

    def do_cond(self, eqn, invals):
        branches = eqn.params["branches"]
        idx, ops = invals[0], list(invals[1:])
        if not is_sym(idx):
            k = int(np.clip(int(np.asarray(idx)), 0, len(branches) - 1))
            return self.eval_closed(branches[k], ops)
        iv = idx[()]
        dec = self.dom.decide_index(iv, len(branches))
        if dec is not None:
            return self.eval_closed(branches[dec], ops)
        if not self.dom.can_branch:
            raise Undecided(f"cond index undecided: {iv!r}")
        outs = None
        n = len(branches)
        for k in range(n - 1, -1, -1):
            g = self.dom.index_is(iv, k, n)
            self.guards.append(g)
            r = self.eval_closed(branches[k], ops)
            self.guards.pop()
            outs = r if outs is None else self.merge(g, r, outs)
        return outs

    # ------------------------------------------------------------------ main loop
    def eval(self, jaxpr, consts, args):
        env = {}

        def read(v):
            if isinstance(v, jcore.Literal):
                return np.asarray(v.val)
            return env[v]

        for v, c in zip(jaxpr.constvars, consts):
            env[v] = c if is_sym(c) else to_np(c)
        assert len(jaxpr.invars) == len(args), (len(jaxpr.invars), len(args))
        for v, a in zip(jaxpr.invars, args):
            env[v] = a if is_sym(a) else to_np(a)
        for e in jaxpr.eqns:
            invals = [read(v) for v in e.invars]
            out = self.eval_eqn(e, invals)
            for v, o in zip(e.outvars, out):
                env[v] = o
        return [read(v) for v in jaxpr.outvars]

    def bind_concrete(self, e, invals):
        o = e.primitive.bind(*[jnp.asarray(a) for a in invals], **e.params)
        return [to_np(x) for x in o] if e.primitive.multiple_results else [to_np(o)]

    def eval_eqn(self, e, invals):
        name = e.primitive.name
        p = e.params
        dom = self.dom
        self.n_eqns += 1
        self.prims_seen[name] = self.prims_seen.get(name, 0) + 1
        if name in self.handlers:
            return self.handlers[name](self, e, invals)
        if name in CALLS:
            nm = p.get("name")
            if nm == "hypot" and len(invals) == 4 and len(e.outvars) == 2 and (
                    any(is_sym(x) for x in invals) or self.dom.exact_concrete):
                # forward-mode variant of jnp.hypot: operands (x, y, dx, dy) -> (r, dr), r = sqrt(x^2+y^2), dr = (x dx + y dy)/r
                # (operand order is checked by the translator validation against the real runtime)
                d_ = self.dom
                r = self.ew(lambda a, b: d_.sqrt(d_.mul(a, a) + d_.mul(b, b)), invals[0], invals[1])
                dr = self.ew(lambda a, b, da, db, rr: d_.div(d_.mul(a, da) + d_.mul(b, db), rr), invals[0], invals[1],
                             invals[2], invals[3], r)
                return [r, dr]
            if nm in self.named_calls and len(e.outvars) == self.named_arity.get(nm, (None, len(e.outvars)))[1] \
                    and len(invals) == self.named_arity.get(nm, (len(invals), None))[0]:
                # (differentiated / batched variants keep the jit name but have more operands: interpret their body)
                return self.named_calls[nm](self, e, invals)
            cj = p.get("jaxpr") or p.get("call_jaxpr")
            return self.eval_closed(cj, invals)
        if name in ("custom_jvp_call", "custom_vjp_call", "custom_vjp_call_jaxpr"):
            cj = p.get("call_jaxpr") or p.get("fun_jaxpr")
            nc = p.get("num_consts", 0)
            return self.eval_closed(cj, invals)
        if name == "scan":
            return self.do_scan(e, invals)
        if name == "while":
            return self.do_while(e, invals)
        if name == "cond":
            return self.do_cond(e, invals)
        anysym = any(is_sym(a) for a in invals)
        if name == "qr":
            if not anysym and not dom.exact_concrete:
                return self.bind_concrete(e, invals)
            if p.get("pivoting"):
                raise Unsupported("pivoted qr")
            R = self.batched(lambda M: dom.qr_r(M), [invals[0]], [2])
            Q = None
            if getattr(dom, "want_q", False):
                # the orthogonal factor is only needed by hand-written differentiation rules (C16)
                Q = self.batched(lambda M: dom.qr_q(M), [invals[0]], [2])
            return [Q, R]
        if not anysym:
            floaty = any(isinstance(a, np.ndarray) and np.issubdtype(a.dtype, np.floating) for a in invals)
            if not (name in EXACT and floaty and dom.exact_concrete):
                return self.bind_concrete(e, invals)
        # ---------------- symbolic (or exact-concrete) evaluation
        if name == "convert_element_type":
            a = invals[0]
            nd = np.dtype(p["new_dtype"])
            if not is_sym(a):
                return self.bind_concrete(e, invals)
            src = e.invars[0].aval.dtype
            if np.issubdtype(nd, np.floating):
                if src == np.bool_:
                    return [self.ew(lambda b: dom.select(b, dom.const(1), dom.const(0)), a)]
                return [a]
            if nd == np.bool_:
                if src == np.bool_:
                    return [a]
                return [self.ew(lambda x: dom.ne(x, dom.const(0)), a)]
            if np.issubdtype(nd, np.integer):
                if src == np.bool_:
                    return [self.ew(lambda b: dom.select(b, dom.const(1), dom.const(0)), a)]
                if np.issubdtype(src, np.integer):
                    return [a]
                return [self.ew(dom.to_int, a)]
            raise Unsupported(f"convert_element_type to {nd}")
        if name in STRUCT:
            if name == "select_n":
                pred = invals[0]
                if is_sym(pred):
                    cases = [self.obj(c) for c in invals[1:]]
                    if len(cases) != 2:
                        raise Unsupported("select_n with >2 cases on symbolic predicate")
                    if e.invars[0].aval.dtype != np.bool_:
                        raise Unsupported("select_n with symbolic integer predicate")
                    # select_n(pred, on_false, on_true)
                    return [self.ew(lambda b, f, t: dom.select(b, t, f), pred, cases[0], cases[1])]
                return self.struct_apply(e.primitive, p, invals, concrete_positions=(0,))
            if name == "dynamic_slice":
                cp = tuple(range(1, len(invals)))
            elif name == "dynamic_update_slice":
                cp = tuple(range(2, len(invals)))
            elif name in ("gather", "scatter"):
                cp = (1,)
            else:
                cp = ()
            for k in cp:
                if is_sym(invals[k]):
                    invals = list(invals)
                    invals[k] = self.concretize_index(invals[k])
            return self.struct_apply(e.primitive, p, invals, concrete_positions=cp)
        if name in ("scatter-add", "scatter_add"):
            return self.scatter_add(e, invals)
        if name in ("add", "add_any"):
            return [self.ew(lambda a, b: a + b, *invals)]
        if name == "sub":
            return [self.ew(lambda a, b: a - b, *invals)]
        if name == "mul":
            return [self.ew(dom.mul, *invals)]
        if name == "neg":
            return [self.ew(lambda a: -a, *invals)]
        if name == "div":
            if np.issubdtype(e.outvars[0].aval.dtype, np.integer):
                raise Unsupported("symbolic integer division")
            return [self.ew(dom.div, *invals)]
        if name == "sqrt":
            return [self.ew(dom.sqrt, *invals)]
        if name == "rsqrt":
            return [self.ew(lambda a: dom.div(dom.const(1), dom.sqrt(a)), *invals)]
        if name == "abs":
            return [self.ew(dom.abs, *invals)]
        if name == "sign":
            return [self.ew(dom.sign, *invals)]
        if name == "square":
            return [self.ew(lambda a: dom.mul(a, a), *invals)]
        if name == "integer_pow":
            y = p["y"]
            return [self.ew(lambda a: dom.pow(a, Fraction(y)), *invals)]
        if name == "pow":
            b = invals[1]
            if is_sym(b):
                return [self.ew(dom.pow_sym, *invals)]
            bo = np.asarray(b)
            return [self.ew(lambda a, q: dom.pow(a, q), invals[0], np.vectorize(snap, otypes=[object])(bo))]
        if name == "hypot":
            return [self.ew(lambda a, b: dom.sqrt(dom.mul(a, a) + dom.mul(b, b)), *invals)]
        if name == "exp":
            return [self.ew(dom.exp, *invals)]
        if name == "log":
            return [self.ew(dom.log, *invals)]
        if name == "lgamma":
            return [self.ew(dom.lgamma, *invals)]
        if name == "max":
            return [self.ew(dom.max, *invals)]
        if name == "min":
            return [self.ew(dom.min, *invals)]
        if name == "clamp":
            lo, x, hi = invals
            return [self.ew(lambda l, v, h: dom.min(dom.max(v, l), h), lo, x, hi)]
        if name in ("lt", "le", "gt", "ge", "eq", "ne"):
            return [self.ew(getattr(dom, name), *invals)]
        if name in ("and", "or", "not", "xor"):
            if e.outvars[0].aval.dtype != np.bool_:
                raise Unsupported(f"bitwise {name} on symbolic integers")
            fn = {"and": dom.and_, "or": dom.or_, "not": dom.not_, "xor": dom.xor_}[name]
            return [self.ew(fn, *invals)]
        if name in ("floor", "ceil", "round"):
            return [self.ew(getattr(dom, name), *invals)]
        if name == "is_finite":
            return [self.ew(lambda a: dom.bool_const(True), *invals)]
        if name == "stop_gradient":
            return [invals[0]]
        if name == "dot_general":
            return [self.dot_general(invals[0], invals[1], p["dimension_numbers"])]
        if name == "triangular_solve":
            if p.get("conjugate_a"):
                pass
            def ts(A, B):
                return dom.tri_solve(A, B, left_side=p["left_side"], lower=p["lower"],
                                     transpose_a=p["transpose_a"], unit_diagonal=p["unit_diagonal"])
            return [self.batched(ts, [invals[0], invals[1]], [2, 2])]
        if name in ("reduce_sum", "reduce_prod", "reduce_max", "reduce_min", "reduce_and", "reduce_or"):
            a = self.obj(invals[0])
            axes = tuple(p["axes"])
            return [self.reduce(name, a, axes)]
        if name == "cumsum":
            a = self.obj(invals[0]); ax = p["axis"]; rev = p.get("reverse", False)
            a = np.moveaxis(a, ax, 0)
            out = np.empty(a.shape, dtype=object)
            rng = range(a.shape[0] - 1, -1, -1) if rev else range(a.shape[0])
            acc = None
            for i in rng:
                ai = np.asarray(a[i], dtype=object)
                acc = ai if acc is None else self.ew(lambda x, y: x + y, acc, ai)
                out[i] = acc
            return [np.moveaxis(out, 0, ax)]
        if name in ("argmin", "argmax"):
            a = self.obj(invals[0]); (ax,) = p["axes"]
            return [self.argext(name, a, ax, p["index_dtype"])]
        if name == "erf_inv":
            return [self.ew(dom.erf_inv, *invals)]
        raise Unsupported(f"primitive {name} on symbolic operands "
                          f"{[getattr(a, 'shape', None) for a in invals]}")

    def reduce(self, name, a, axes):
        dom = self.dom
        if not axes:
            return a
        op = {"reduce_sum": lambda x, y: x + y, "reduce_prod": dom.mul, "reduce_max": dom.max,
              "reduce_min": dom.min, "reduce_and": dom.and_, "reduce_or": dom.or_}[name]
        keep = [i for i in range(a.ndim) if i not in axes]
        at = np.transpose(a, keep + list(axes))
        kshape = [a.shape[i] for i in keep]
        at = at.reshape(kshape + [-1])
        out = np.empty(kshape, dtype=object)
        if at.shape[-1] == 0:
            ident = {"reduce_sum": dom.const(0), "reduce_prod": dom.const(1),
                     "reduce_and": dom.bool_const(True), "reduce_or": dom.bool_const(False)}.get(name)
            if ident is None:
                raise Unsupported("empty reduce_max/min")
            for idx in np.ndindex(*kshape):
                out[idx] = ident
            if not kshape:
                out[()] = ident
            return out
        for idx in (np.ndindex(*kshape) if kshape else [()]):
            row = at[idx]
            acc = row[0]
            for x in row[1:]:
                acc = op(acc, x)
            out[idx] = acc
        return out

    def argext(self, name, a, ax, index_dtype):
        dom = self.dom
        a = np.moveaxis(a, ax, -1)
        out = np.empty(a.shape[:-1], dtype=object)
        better = dom.lt if name == "argmin" else dom.gt
        for idx in (np.ndindex(*a.shape[:-1]) if a.ndim > 1 else [()]):
            row = a[idx]
            best, bi = row[0], dom.const(0)
            for k in range(1, len(row)):
                b = better(row[k], best)
                best = dom.select(b, row[k], best)
                bi = dom.select(b, dom.const(k), bi)
            out[idx] = bi
        return out

    def concretize_index(self, idx):
        """symbolic index arrays must be decidable constants in this domain"""
        out = np.empty(idx.shape, dtype=np.int64)
        flat = out.reshape(-1) if idx.ndim else None
        vals = idx.reshape(-1) if idx.ndim else [idx[()]]
        res = []
        for v in vals:
            c = self.dom.as_int(v)
            if c is None:
                raise Undecided(f"symbolic index {v!r}")
            res.append(c)
        if idx.ndim == 0:
            return np.asarray(res[0], dtype=np.int64)
        flat[:] = res
        return out
