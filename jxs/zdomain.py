"""Z3Domain: jaxpr values as z3 real/bool terms with ite (back end S: control flow, piecewise arithmetic)."""
from fractions import Fraction

import numpy as np
import z3

from .interp import Unsupported, Undecided


def _val(x):
    """python Fraction of a z3 numeral, else None"""
    if z3.is_rational_value(x):
        return Fraction(x.numerator_as_long(), x.denominator_as_long())
    if z3.is_int_value(x):
        return Fraction(x.as_long())
    return None


class Z3Domain:
    exact_concrete = False     # concrete float sub-computations run on the real primitives
    can_branch = True

    def __init__(self, linearize=False):
        self.linearize = linearize   # products/quotients of two symbolic terms become UFs + instantiated axioms
        self.mul_apps = []      # (a, b, result)
        self.div_apps = []
        self.side = []          # global side constraints (definitions of sqrt/abs variables, guarded)
        self.defined_conds = [] # (guard-less) definedness conditions: (kind, term)
        self.ufs = {}
        self.pow_apps = []      # (exponent, argument term, result term)
        self.n = 0
        self.notes = []

    # ---- constants / predicates
    def const(self, c):
        c = Fraction(c)
        return z3.RealVal(str(c))

    def bool_const(self, b):
        return z3.BoolVal(bool(b))

    def is_zero(self, x):
        v = _val(x) if z3.is_expr(x) else None
        return v is not None and v == 0

    def decide(self, b):
        if isinstance(b, (bool, np.bool_)):
            return bool(b)
        s = z3.simplify(b)
        if z3.is_true(s):
            return True
        if z3.is_false(s):
            return False
        return None

    def decide_index(self, iv, n):
        v = _val(z3.simplify(iv))
        if v is None:
            return None
        return int(max(0, min(n - 1, int(v))))

    def as_int(self, v):
        x = _val(z3.simplify(v))
        if x is None or x.denominator != 1:
            return None
        return int(x)

    def index_is(self, iv, k, n):
        if k == 0:
            return z3.simplify(iv <= 0)
        if k == n - 1:
            return z3.simplify(iv >= n - 1)
        return z3.simplify(iv == k)

    def fresh(self, pfx):
        self.n += 1
        return z3.Real(f"{pfx}!{self.n}")

    # ---- arithmetic
    def mul(self, a, b):
        if self.linearize and _val(a) is None and _val(b) is None:
            sa, sb = z3.simplify(a), z3.simplify(b)
            if _val(sa) is None and _val(sb) is None:
                if sa.get_id() > sb.get_id():      # commutative normal form
                    sa, sb = sb, sa
                r = self.uf("MUL", (sa, sb))
                self.mul_apps.append((sa, sb, r))
                return r
            a, b = sa, sb
        return a * b

    def div(self, a, b):
        vb = _val(b)
        if vb is not None:
            if vb == 0:
                raise Unsupported("division by the constant zero")
            return a * z3.RealVal(str(1 / vb))
        self.defined_conds.append(("nonzero", b))
        if self.linearize:
            sa, sb = z3.simplify(a), z3.simplify(b)
            if _val(sb) is not None:
                return sa * z3.RealVal(str(1 / _val(sb)))
            r = self.uf("DIV", (sa, sb))
            self.div_apps.append((sa, sb, r))
            return r
        return a / b

    def sqrt(self, a):
        va = _val(z3.simplify(a))
        if va is not None:
            import math
            n, d = va.numerator, va.denominator
            rn, rd = math.isqrt(n), math.isqrt(d)
            if va >= 0 and rn * rn == n and rd * rd == d:
                return z3.RealVal(str(Fraction(rn, rd)))
        s = self.fresh("sqrt")
        self.side.append(z3.Implies(a >= 0, z3.And(s >= 0, s * s == a)))
        self.defined_conds.append(("nonneg", a))
        return s

    def abs(self, a):
        return z3.If(a >= 0, a, -a)

    def sign(self, a):
        return z3.If(a > 0, z3.RealVal(1), z3.If(a < 0, z3.RealVal(-1), z3.RealVal(0)))

    def uf(self, name, args, positive=False):
        f = self.ufs.get(name)
        if f is None:
            f = z3.Function(name, *([z3.RealSort()] * (len(args) + 1)))
            self.ufs[name] = f
        return f(*args)

    def pow(self, a, q):
        q = Fraction(q)
        if q.denominator == 1 and abs(q) <= 4:
            k = int(q)
            if k == 0:
                return z3.RealVal(1)
            r = a
            for _ in range(abs(k) - 1):
                r = r * a
            return r if k > 0 else self.div(z3.RealVal(1), r)
        va = _val(z3.simplify(a))
        if va is not None and va == 1:
            return z3.RealVal(1)
        r = self.uf(f"POW[{q}]", (a,))
        self.pow_apps.append((q, a, r))
        return r

    def pow_sym(self, a, b):
        vb = _val(z3.simplify(b))
        if vb is not None:
            return self.pow(a, vb)
        return self.uf("POWXY", (a, b))

    def exp(self, a): return self.uf("EXP", (a,))
    def log(self, a): return self.uf("LOG", (a,))
    def lgamma(self, a): return self.uf("LGAMMA", (a,))

    def max(self, a, b): return z3.If(a >= b, a, b)
    def min(self, a, b): return z3.If(a <= b, a, b)

    def lt(self, a, b): return z3.simplify(a < b)
    def le(self, a, b): return z3.simplify(a <= b)
    def gt(self, a, b): return z3.simplify(a > b)
    def ge(self, a, b): return z3.simplify(a >= b)
    def eq(self, a, b): return z3.simplify(a == b)
    def ne(self, a, b): return z3.simplify(a != b)
    def and_(self, a, b): return z3.simplify(z3.And(a, b))
    def or_(self, a, b): return z3.simplify(z3.Or(a, b))
    def not_(self, a): return z3.simplify(z3.Not(a))
    def xor_(self, a, b): return z3.simplify(z3.Xor(a, b))

    def select(self, b, t, f):
        d = self.decide(b)
        if d is not None:
            return t if d else f
        if z3.is_expr(t) and z3.is_expr(f) and t.eq(f):
            return t
        return z3.If(b, t, f)

    def to_int(self, a):
        v = _val(z3.simplify(a))
        if v is not None:
            return z3.RealVal(int(v))
        return a      # integer-valued symbolic quantities (counters) stay as they are

    def floor(self, a): return z3.ToReal(z3.ToInt(a))
    def ceil(self, a): return -z3.ToReal(z3.ToInt(-a))
    def round(self, a): raise Unsupported("round of symbolic")

    # ---- contracts (rarely needed in back end S)
    def qr_r(self, M): raise Unsupported("qr in the z3 domain")
    def tri_solve(self, *a, **k): raise Unsupported("triangular solve in the z3 domain")
    def solve(self, *a, **k): raise Unsupported("solve in the z3 domain")
    def lstsq(self, A, B):
        """minimum-norm least squares for a single-row system:  x = a^T b / (a a^T)  (0 if a = 0)"""
        if A.shape[0] != 1:
            raise Unsupported("lstsq with more than one row in the z3 domain")
        vec = B.ndim == 1
        B2 = B.reshape(1, -1)
        n = A.shape[1]
        aa = None
        for j in range(n):
            t = self.mul(A[0, j], A[0, j])
            aa = t if aa is None else aa + t
        X = np.empty((n, B2.shape[1]), dtype=object)
        for c in range(B2.shape[1]):
            w = self.div(B2[0, c], aa)
            for j in range(n):
                X[j, c] = z3.If(aa == 0, z3.RealVal(0), self.mul(A[0, j], w))
        return X.reshape(-1) if vec else X


def zarr(x):
    o = np.empty((), dtype=object)
    o[()] = x
    return o


def zvec(xs):
    o = np.empty((len(xs),), dtype=object)
    for i, x in enumerate(xs):
        o[i] = x
    return o
