"""./check <Cnn> --tier quick|thorough : run one property's harnesses and write evidence."""
import argparse
import fnmatch
import importlib
import json
import multiprocessing as mp
import os
import sys
import time
import traceback

HERE = os.path.dirname(os.path.abspath(__file__))
sys.path.insert(0, HERE)

EXIT_OK, EXIT_VIOLATION, EXIT_INCONCLUSIVE = 0, 1, 3


def _child(job, conn):
    """one case in its own process; the parent enforces the time limit"""
    modname, case_id, tier, seed, replay_dir, case_timeout = job
    os.environ.setdefault("JAX_PLATFORMS", "cpu")
    os.environ["VERIF_DEADLINE"] = str(time.time() + case_timeout)
    import signal

    def _term(signum, frame):
        raise SystemExit(111)
    signal.signal(signal.SIGTERM, _term)

    def log(s):
        print(s, flush=True)
    res = None
    try:
        mod = importlib.import_module(modname)
        res = mod.run_case(case_id, tier=tier, seed=seed, replay_dir=replay_dir, log=log)
    except SystemExit:
        from jxs import harness
        res = getattr(harness, "CURRENT", None)
        if res is not None:
            res = dict(res)
            res["status"] = "inconclusive"
            res.setdefault("notes", []).append(f"case timeout after {case_timeout}s (partial results kept)")
        else:
            res = {"case": str(case_id), "status": "inconclusive", "obligations": [],
                   "notes": [f"case timeout after {case_timeout}s"], "wall_s": case_timeout}
        print(f"  [{case_id}] TIMEOUT after {case_timeout}s", flush=True)
    except BaseException as ex:  # noqa: BLE001 - a worker must always answer
        res = {"case": str(case_id), "status": "error", "obligations": [],
               "notes": [traceback.format_exc()], "wall_s": 0.0}
        print(f"  [{case_id}] WORKER ERROR {ex!r}", flush=True)
    try:
        conn.send(res)
    finally:
        conn.close()


def run_jobs(jobs, nproc):
    """own process pool: one fresh process per case, hard time limit enforced by the parent"""
    ctx = mp.get_context("spawn")
    pending = list(jobs)[::-1]
    running = {}
    results = []
    while pending or running:
        while pending and len(running) < nproc:
            job = pending.pop()
            pc, cc = ctx.Pipe(duplex=False)
            pr = ctx.Process(target=_child, args=(job, cc), daemon=True)
            pr.start()
            cc.close()
            running[pr.pid] = (pr, pc, job, time.time(), None)
        time.sleep(0.05)
        for pid in list(running):
            pr, pc, job, t0, termed = running[pid]
            got = None
            try:
                if pc.poll():
                    got = pc.recv()
            except (EOFError, OSError):
                got = {"case": str(job[1]), "status": "error", "obligations": [],
                       "notes": ["worker died without a result"], "wall_s": round(time.time() - t0, 1)}
            if got is not None:
                results.append(got)
                pr.join(timeout=5)
                if pr.is_alive():
                    pr.kill()
                del running[pid]
                continue
            if not pr.is_alive():
                results.append({"case": str(job[1]), "status": "error", "obligations": [],
                                "notes": [f"worker exited with code {pr.exitcode} without a result"],
                                "wall_s": round(time.time() - t0, 1)})
                del running[pid]
                continue
            el = time.time() - t0
            if termed is None and el > job[5]:
                pr.terminate()
                running[pid] = (pr, pc, job, t0, time.time())
            elif termed is not None and time.time() - termed > 15:
                pr.kill()
                pr.join(timeout=5)
                print(f"  [{job[1]}] TIMEOUT after {job[5]}s (killed)", flush=True)
                results.append({"case": str(job[1]), "status": "inconclusive", "obligations": [],
                                "notes": [f"case timeout after {job[5]}s (process killed)"],
                                "wall_s": round(el, 1)})
                del running[pid]
    return results


def load_known(prop):
    path = os.path.join(HERE, "known_findings.json")
    if not os.path.exists(path):
        return []
    with open(path) as f:
        data = json.load(f)
    return [k for k in data.get("known", []) if k.get("property") == prop]


def main():
    ap = argparse.ArgumentParser()
    ap.add_argument("prop")
    ap.add_argument("--tier", default=os.environ.get("VERIF_TIER", "quick"), choices=["quick", "thorough"])
    ap.add_argument("--seed", type=int, default=int(os.environ.get("VERIF_SEED", "0")))
    ap.add_argument("--jobs", type=int, default=int(os.environ.get("VERIF_JOBS", "16")))
    ap.add_argument("--only", default=None, help="fnmatch pattern on case ids")
    ap.add_argument("--replay", default=None, help="replay a stored counterexample file against the real code")
    ap.add_argument("--no-evidence", action="store_true")
    ap.add_argument("--case-timeout", type=int, default=None)
    a = ap.parse_args()
    prop = a.prop.upper()
    modname = f"props.{prop}"
    t0 = time.time()
    from jxs import trace
    repo_path = trace.check_repo_import()
    mod = importlib.import_module(modname)
    if a.replay:
        return mod.replay(a.replay)
    cases = list(mod.cases(a.tier))
    if a.only:
        cases = [c for c in cases if fnmatch.fnmatch(str(c), a.only)]
    replay_dir = os.path.join(HERE, "evidence", "replays", prop)
    cto = a.case_timeout or (300 if a.tier == "quick" else 2400)
    jobs = [(modname, c, a.tier, a.seed, replay_dir, cto) for c in cases]
    print(f"== {prop} tier={a.tier} seed={a.seed}: {len(jobs)} cases, probdiffeq from {repo_path}", flush=True)
    results = run_jobs(jobs, max(1, min(a.jobs, len(jobs))))
    results.sort(key=lambda r: str(r.get("case")))
    known = load_known(prop)
    violations, known_hits, inconclusive, errors = [], [], [], []
    n_obl = n_ok = 0
    for r in results:
        if r.get("status") == "error":
            errors.append(r)
        elif r.get("status") == "inconclusive":
            inconclusive.append({"id": r.get("case"), "why": r.get("notes")})
        for o in r.get("obligations", []):
            n_obl += 1
            st = o.get("status")
            if st in ("proved", "trivial", "holds"):
                n_ok += 1
            elif st == "violated":
                k = next((k for k in known if fnmatch.fnmatch(o["id"], k["obligation"])), None)
                if k:
                    known_hits.append((k, o))
                else:
                    violations.append(o)
            else:
                inconclusive.append({"id": o.get("id"), "why": o.get("status")})
    wall = time.time() - t0
    for k, o in known_hits:
        print(f"KNOWN-FINDING: property={prop} {o['id']} {k['what']}")
    for o in violations:
        print(f"VIOLATION property={prop} replay={o.get('replay', 'n/a')}  ({o['id']})")
    for i in inconclusive:
        print(f"INCONCLUSIVE property={prop} {i['id']}: {str(i['why'])[:300]}")
    for e in errors:
        print(f"HARNESS-ERROR property={prop} {e.get('case')}: {str(e.get('notes'))[-800:]}")
    if not a.no_evidence:
        ev = mod.evidence(a.tier, a.seed, results, wall) if hasattr(mod, "evidence") else {}
        base = default_evidence(prop, a.tier, a.seed, results, wall, getattr(mod, "META", {}), repo_path)
        base["coverage"].update(ev.get("coverage", {}))
        for k, v in ev.items():
            if k != "coverage":
                base[k] = v
        base["violations"] = len(violations)
        base["coverage"]["known_findings_reported"] = [o["id"] for _, o in known_hits]
        base["coverage"]["inconclusive"] = [i["id"] for i in inconclusive]
        os.makedirs(os.path.join(HERE, "evidence"), exist_ok=True)
        with open(os.path.join(HERE, "evidence", f"{prop}.json"), "w") as f:
            json.dump(base, f, indent=1, default=str)
    print(f"== {prop}: {n_ok}/{n_obl} obligations discharged, {len(known_hits)} known findings, "
          f"{len(violations)} violations, {len(inconclusive)} inconclusive, {len(errors)} errors, {wall:.1f}s", flush=True)
    if violations:
        return EXIT_VIOLATION
    if inconclusive or errors or n_obl == 0:
        return EXIT_INCONCLUSIVE
    return EXIT_OK


def default_evidence(prop, tier, seed, results, wall, meta, repo_path):
    obls = [o for r in results for o in r.get("obligations", [])]
    discharged = [o for o in obls if o.get("status") in ("proved", "trivial", "holds")]
    nontrivial = {o["id"] for o in obls if o.get("status") in ("proved", "holds", "violated")
                  and (o.get("prover", {}).get("rows", 0) > 0 or o.get("nontrivial"))}
    queries = sum(o.get("prover", {}).get("queries", 0) + o.get("queries", 0) for o in obls)
    solver_s = sum(o.get("prover", {}).get("solver_s", 0.0) + o.get("solver_s", 0.0) for o in obls)
    prims = {}
    eqns = 0
    for r in results:
        enc = r.get("encoded", {})
        eqns += enc.get("eqns_interpreted", 0)
        for k, v in enc.get("primitives", {}).items():
            prims[k] = prims.get(k, 0) + v
    samples = []
    for r in results[:3]:
        for o in r.get("obligations", [])[:2]:
            samples.append({"obligation": o["id"], "status": o.get("status"), "goals": o.get("n_goals"),
                            "goal_degree": o.get("goal_deg"), "rows": o.get("prover", {}).get("rows"),
                            "monomials": o.get("prover", {}).get("monos"),
                            "pinned_inputs_for_validation": r.get("sample_inputs")})
    tv = [r.get("translator_validation") for r in results if r.get("translator_validation")]
    cov = {
        "evaluations": max(queries, len(obls)),
        "distinct_nontrivial": len(nontrivial),
        "rule": "one evaluation = one solver query (z3 check-sat); an obligation is counted as distinct and "
                "non-trivial when its id is unique, its goal polynomial is not syntactically zero and the proof "
                "needed at least one hypothesis product (P) or its negation was a satisfiable-looking formula "
                "decided by the solver (S)",
        "samples": samples or [{"note": "no obligations"}],
        "obligations": len(obls),
        "discharged": len(discharged),
        "checker_cmd": f"./check {prop} --tier {tier}",
        "trusted_base": ["CPython 3.12 + JAX 0.11.1 tracing (make_jaxpr)", "jxs interpreter + exact polynomial "
                         "arithmetic (validated per case in the float domain against the real JAX runtime)",
                         "z3 5.1.0 (QF_LRA / NRA)"],
        "cases": len(results),
        "solver_queries": queries,
        "solver_time_s": round(solver_s, 2),
        "jaxpr_equations_interpreted": eqns,
        "primitives_seen": prims,
        "translator_validation": {"cases": len(tv), "all_ok": all(t.get("ok") in (True, None) for t in tv)},
        "functions_encoded": meta.get("functions", []),
        "bounds": meta.get("bounds", {}).get(tier, meta.get("bounds")),
        "outside_the_claim": meta.get("outside", []),
        "repo": repo_path,
        "per_case": [{"case": r.get("case"), "status": r.get("status"), "wall_s": r.get("wall_s"),
                      "jaxpr_eqns": r.get("encoded", {}).get("jaxpr_eqns"),
                      "hyps": r.get("encoded", {}).get("hyps_total"),
                      "obligations": [{"id": o["id"], "status": o["status"],
                                       "rows": o.get("prover", {}).get("rows"),
                                       "solver_s": round(o.get("prover", {}).get("solver_s", 0.0), 2)}
                                      for o in r.get("obligations", [])]} for r in results],
    }
    return {"property_id": prop, "tier": tier, "seed": seed, "level": meta.get("level", "model_checking"),
            "coverage": cov, "assumptions": meta.get("assumptions", []), "wall_s": round(wall, 2), "violations": 0}


if __name__ == "__main__":
    sys.exit(main())
