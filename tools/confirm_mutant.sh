#!/bin/sh
# confirm_mutant.sh <worktree> <mN> : verify a seeded change in its scratch worktree (never in /repo)
# 1. demo passes on the clean tree  2. change applies  3. demo fails with it  4. full test suite passes with it
WT="$1"; M="$2"
cd "$WT" || exit 2
git checkout -q -- probdiffeq
OUT="$WT/out/$M.confirm.txt"
: > "$OUT"
PYTHONPATH="$WT" timeout 600 /venv/bin/python "out/${M}_demo.py" > "out/$M.demo_clean.log" 2>&1; echo "demo_clean_exit=$?" >> "$OUT"
git apply "out/$M.diff" || { echo "apply_failed=1" >> "$OUT"; exit 1; }
PYTHONPATH="$WT" timeout 600 /venv/bin/python "out/${M}_demo.py" > "out/$M.demo_mut.log" 2>&1; echo "demo_mut_exit=$?" >> "$OUT"
PYTHONPATH="$WT" timeout 1800 /venv/bin/python -m pytest -q -p no:cacheprovider -n 4 --timeout=900 > "out/$M.pytest.log" 2>&1; echo "pytest_exit=$?" >> "$OUT"
tail -1 "out/$M.pytest.log" >> "$OUT"
git checkout -q -- probdiffeq
cat "$OUT"
