#!/usr/bin/env python3
"""archive_mutant.py <worktree> <mN> <seeded-id> <detected_by or 'MISSED'> [note]: copy a confirmed seeded change into /verif/seeded/<id>/"""
import json, os, shutil, sys
wt, m, sid, det = sys.argv[1:5]
note = sys.argv[5] if len(sys.argv) > 5 else ""
dst = f"/verif/seeded/{sid}"
os.makedirs(dst, exist_ok=True)
shutil.copy(f"{wt}/out/{m}.diff", f"{dst}/patch.diff")
shutil.copy(f"{wt}/out/{m}_demo.py", f"{dst}/demo.py")
meta = json.load(open(f"{wt}/out/{m}.json"))
conf = {}
for line in open(f"{wt}/out/{m}.confirm.txt"):
    if "=" in line:
        k, v = line.strip().split("=", 1)
        conf[k] = v
    else:
        conf["pytest_summary"] = line.strip()
out = {"property": meta.get("property"), "summary": meta.get("summary"), "needs_to_manifest": meta.get("needs"),
       "files": meta.get("files"), "origin": "independent sub-agent given only the property text and a scratch worktree",
       "confirmed_by_me": {"where": "scratch worktree " + wt + " (removed afterwards)",
                            "ran": ["demo on clean tree", "git apply patch.diff", "demo with change",
                                    "full test suite with change (pytest -n 4)"], **conf},
       "detected_by": det, "note": note}
json.dump(out, open(f"{dst}/meta.json", "w"), indent=1)
print("archived", dst, det)
