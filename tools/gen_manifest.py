#!/usr/bin/env python3
"""Regenerate MANIFEST.json from the table below (keeps the manifest valid at all times)."""
import json
import os

HERE = os.path.dirname(os.path.dirname(os.path.abspath(__file__)))

P_NOTE = ("Assumes real arithmetic (no rounding), the QR/triangular-solve/lstsq contracts A2-A4 of DESIGN.md §3, "
          "strictly positive scalings/step sizes where the property says so, and the stated size bounds. Trusted "
          "base: CPython+JAX tracing, the jxs interpreter and polynomial arithmetic (re-validated on every run "
          "against the real JAX runtime in float64), z3.")

CLAIMED = {
    "C08": dict(
        text="Bounded symbolic model checking of the real code: each conditional/normal operation of the three "
             "factorisations is traced to its jaxpr, executed over symbolic reals, and its result is shown equal to "
             "the dense textbook formula for ALL real operands of the stated shapes (z3 QF_LRA unsat on a sound "
             "linear abstraction of 'contract hypotheses and goal != 0'); counterexamples come from an exact z3 query "
             "at pinned inputs and are replayed on the real code.",
        technique="jaxpr symbolic execution + polynomial hypotheses + z3 QF_LRA (XL certificates); z3 NRA refutation; float64 replay",
        design="§4 C08"),
}

CLAIMED["C02"] = dict(
    text="Bounded symbolic model checking of the real solver code: one filter step from an ARBITRARY state (symbolic "
         "mean, Cholesky factor, prior noise factor, base scale, time, step size, damping, polynomial vector field) is "
         "shown equal to the textbook EKF step in covariance form for all three factorisations, three calibration "
         "modes, TS0/TS1, first/second-order ODEs (z3 QF_LRA unsat on linearised polynomial-identity obligations); "
         "solve_fixed_grid is shown to be init followed by exactly these steps (relational, same trace). By induction "
         "this covers every grid; the induction itself is stated, not machine-checked. Also solver.init with an initial-constraint update from an arbitrary initial distribution (posterior, solution_full, MLE bookkeeping) and from exactly known initial coefficients (definedness replayed on the real code; the NaN of solver_mle there is a recorded known finding).",
    technique="jaxpr symbolic execution + polynomial hypotheses + z3 QF_LRA (XL certificates); z3 NRA refutation; float64 replay",
    design="§4 C02")

CLAIMED["C03"] = dict(
    text="Bounded symbolic model checking of the real smoother code: one smoother step from an ARBITRARY state (incl. an "
         "arbitrary previous backward kernel) yields the exact filtering marginal and the exact backward kernel in "
         "joint-law form (fixed-interval) resp. its exact composition with the previous kernel (fixed-point); "
         "evaluate_marginals on arbitrary kernels is the backward recursion; solve_fixed_grid end to end returns the "
         "filtering marginal at the final time as terminal marginal, the backward recursion for all earlier times, and "
         "a backward factorisation equal to the step kernels (uncalibrated and MLE). All by z3 QF_LRA unsat on linearised "
         "polynomial-identity obligations for all three factorisations.",
    technique="jaxpr symbolic execution + polynomial hypotheses + z3 QF_LRA (XL certificates); z3 NRA refutation; float64 replay",
    design="§4 C03")

CLAIMED["C06"] = dict(
    text="Bounded model checking of the REAL adaptive driver: solve_adaptive_save_at / RejectionLoop / both controllers are "
         "traced with a scripted solver and error estimator whose answers are uninterpreted functions, the jaxpr (scan, two "
         "nested while loops, cond/switch) is executed over z3 terms with the loops unrolled to the stated bounds, and each "
         "clause of the property is an assertion over the recorded attempt/controller/interpolation probes that z3 decides "
         "for every error profile, checkpoint layout, dt0 and eps (unsat of assumptions AND violation). Models are replayed "
         "on the real driver in eager mode and re-judged by an independent plain-Python statement of the clauses.",
    technique="jaxpr symbolic execution over z3 terms (bounded unrolling, ite merging, UFs for error profile/products) + z3 QF_UFLRA; concrete replay",
    design="§4 C06",
    note="Assumes real-valued time, the unwinding bounds (<=2 consecutive rejections, <=2 loop iterations per checkpoint in the "
         "quick tier), concrete controller parameters, and sound UF abstractions of x**c, products and quotients of symbolic "
         "terms. Trusted base: CPython+JAX tracing, jxs interpreter, z3.")

CLAIMED["C05"] = dict(
    text="Two bounded symbolic checks of the real code. (P) ProbabilisticSolver.interpolate_fwd / interpolate_fwd_at_t1 with "
         "the three strategies, from two ARBITRARY solver states and symbolic t0<t<t1, equals exact Gaussian conditioning "
         "(prediction from the preceding state; for smoothers the backward kernels in joint-law form, their composition, "
         "and the identity restart), decided by z3 QF_LRA on linearised polynomial obligations for all three "
         "factorisations. (S) The real adaptive driver with a scripted solver: with and without an extra checkpoint the "
         "k-th executed attempt is identical for every error profile, and consecutive interpolations inside one step are "
         "chained through the states returned by the previous interpolation (z3 over the unrolled driver). Also (S) solve_adaptive_terminal_values against solve_adaptive_save_at([t0,t1]) with shared symbolic dt0, distinct tolerances/damping and the same scripted controller: same attempts, same arguments reaching solver and error estimate, same outputs.",
    technique="jaxpr symbolic execution; z3 QF_LRA (XL certificates) for the Gaussian algebra, z3 QF_UFLRA over the unrolled driver for the control part; replay on the real code",
    design="§4 C05")

CLAIMED["C09"] = dict(
    text="Bounded symbolic model checking of the real prior code: the integrated-Wiener prior of all three factorisations is "
         "constructed INSIDE the trace (Kahan's Hilbert-Cholesky recurrence, QR re-triangularisation, sign normalisation, "
         "Taylor preconditioner; square roots of integers are exact algebraic atoms) and its transition over a symbolic step "
         "h>0 with symbolic calibrated and base scales is shown equal to the closed-form Taylor/Pascal matrix and "
         "Hilbert-type process noise; transitions over h1 then h2 merge to the transition over h1+h2; every Pade/Legendre "
         "initialisation (orders 3,5,7,9,13) reproduces e^A and the exact Gramian on the nilpotent drift where it is "
         "algebraically exact; one doubling step is exact from an arbitrary state. z3 QF_LRA decides the linearised "
         "polynomial obligations. The public exp_gram_cholesky is additionally run with a concrete tiny step so that the data-dependent scaling count is the one the real code computes.",
    technique="jaxpr symbolic execution with exact algebraic constants + polynomial hypotheses + z3 QF_LRA (XL certificates); float64 replay",
    design="§4 C09")

CLAIMED["C07"] = dict(
    text="Bounded symbolic model checking of the real estimators: estimate_error_norm of both estimators is traced with "
         "ARBITRARY previous/proposed states (symbolic means, proposed time, cached linearisation), symbolic dt, atol, rtol and "
         "prior; the result is a single uninterpreted power whose exponent must be -1/(q+1) and whose squared argument is shown "
         "equal to the documented tolerance-weighted RMS norm of the locally calibrated residual/state standard deviation "
         "scaled by dt^n/n! and referenced to max(|u_prev|,|u_new|) (sign cases as stated assumptions), for both norms, "
         "cached/re-linearised, per-unit-step, derivative index and three factorisations (z3 QF_LRA on linearised obligations).",
    technique="jaxpr symbolic execution + polynomial hypotheses + z3 QF_LRA (XL certificates); z3 NRA refutation; float64 replay",
    design="§4 C07")

CLAIMED["C04"] = dict(
    text="Bounded symbolic model checking of the real calibration code: from an ARBITRARY state one step of solver_mle "
         "updates the running scale to sqrt((n r^2 + whitened-residual RMS^2)/(n+1)) (per dimension for blockdiag), "
         "solver_dynamic reports and uses the local estimate, the uncalibrated solver reports one; solve_fixed_grid reports "
         "running/sqrt(N) (or running) and multiplies unit-scale factors by it; the same step with base scale lambda and "
         "c*lambda (symbolic c>0) side by side gives equal means, covariances scaled by c^2 resp. equal, and scales divided "
         "by c; at checkpoints the scale of the right end point is reported and used. z3 QF_LRA on linearised obligations.",
    technique="jaxpr symbolic execution + polynomial hypotheses + z3 QF_LRA (XL certificates, relational two-run encoding); float64 replay",
    design="§4 C04")

CLAIMED["C18"] = dict(
    text="Bounded symbolic model checking of the real helpers: dt0 and dt0_adaptive are traced with an UNINTERPRETED vector "
         "field (every field, including f(u0)=0) and executed over z3 terms (ite for the where-guards, uninterpreted "
         "products/quotients/powers/norms with sign and bound axioms); z3 decides that the proposal is strictly positive for "
         "every real initial value incl. zero, every t0, atol, rtol>0, and that dt0_adaptive equals an independently written "
         "Hairer-Norsett-Wanner II.4 model term by term. Models are replayed on the real helpers.",
    technique="jaxpr symbolic execution over z3 terms (ite, UF abstractions with instantiated axioms) + z3 QF_UFLRA; concrete replay",
    design="§4 C18",
    note="Assumes reals (no overflow/underflow: magnitudes like 1e300 are floating-point questions), scalar and 2-d states, "
         "and sound UF abstractions of products, quotients, powers and Euclidean norms. Trusted base: JAX tracing, jxs "
         "interpreter, z3.")

CLAIMED["C14"] = dict(
    text="Bounded symbolic model checking: one step of the isotropic and block-diagonal models (d=2) from states that "
         "correspond to a shared symbolic factor is shown equal to ONE common reference, the dense textbook EKF step on "
         "the dense embedding (the dense model itself is tied to that reference under C02): TS0 with an arbitrary coupled, "
         "non-autonomous polynomial field in the uncalibrated and MLE modes (means; covariances where theory says so; the "
         "block-diagonal MLE scale as per-dimension split), with damping, reported standard deviations included; TS1 with a "
         "componentwise-decoupled field (block-diagonal = independent scalar dense solves, no cross-correlation) and with a "
         "Jacobian that is a multiple of the identity (isotropic = dense). z3 QF_LRA on linearised obligations.",
    technique="jaxpr symbolic execution + polynomial hypotheses + z3 QF_LRA (XL certificates) against a common dense reference; float64 replay",
    design="§4 C14")

DIRECT_NOTE = ("Assumes real arithmetic and polynomial inputs with symbolic coefficients up to the stated degree/size. "
               "Trusted base: CPython+JAX tracing (jet/jvp/vmap are JAX's own), the jxs interpreter and polynomial "
               "arithmetic (re-validated every run against the real JAX runtime), z3.")
CLAIMED["C10"] = dict(
    text="Bounded symbolic check of the real routines: each Taylor-coefficient routine is traced (JAX applies jet/jvp "
         "itself) on polynomial vector fields whose every coefficient, initial value and the initial time are symbols, "
         "the jaxpr is executed over exact polynomials and z3 decides 'impl != exact total-derivative recursion' (unsat "
         "= identity for all real coefficient values); sat models are replayed on the real code.",
    technique="jaxpr symbolic execution to polynomials + z3 (NRA) identity queries; float64 replay",
    design="§4 C10", note=DIRECT_NOTE)
CLAIMED["C17"] = dict(
    text="Bounded symbolic check of the real handlers on polynomial maps with symbolic coefficients and evaluation point; "
         "Rademacher probes are symbols with v^2=1 and the expectation over ALL sign patterns is taken algebraically, then "
         "z3 decides equality with the exact Jacobian block; counterexamples are replayed on the real code with the "
         "exhaustive average over all sign patterns.",
    technique="jaxpr symbolic execution to polynomials + algebraic expectation over sign probes + z3 identity queries",
    design="§4 C17", note=DIRECT_NOTE)

CLAIMED["C11"] = dict(
    text="Bounded symbolic check of the real constructors: jet_lift / jet_lift_max of ODE right-hand sides and residuals, "
         "residual_from_ode, residual_from_stack and linearize() of the TS0/TS1 constraints of all three factorisations are "
         "traced on polynomial constraints with symbolic coefficients, Taylor coefficients and time; z3 decides equality "
         "with the exact total-derivative operator (lifting) resp. with the constraint value and its full / per-dimension / "
         "trace-averaged Jacobian (linearisation). The admissible lift_by range is enumerated concretely.",
    technique="jaxpr symbolic execution to polynomials + z3 (NRA) identity queries; float64 replay",
    design="§4 C11", note=DIRECT_NOTE)

CLAIMED["C13"] = dict(
    text="Bounded symbolic check of the real sampler: MarkovSequence.sample / from_grid are traced on ARBITRARY Markov sequences "
         "(symbolic marginal, conditionals with offsets and scalings) with random.normal replaced by an uninterpreted function "
         "of the concrete PRNG key; the samples are polynomials that must be affine in the draws, with the draws set to zero "
         "they must equal the exact smoothing means, and the coefficient matrix T of the draws must satisfy T_j T_l^T = "
         "Cov(x_j, x_l) of the exact joint law, for sample shapes (), (2,), (2,2) and three factorisations (z3 identity "
         "queries). Violations are replayed on the real sampler with forced draws (zero / unit vectors).",
    technique="jaxpr symbolic execution to polynomials (draws as UF of the PRNG key) + z3 (NRA) identity queries; forced-draw replay",
    design="§4 C13", note=DIRECT_NOTE)

CLAIMED["C12"] = dict(
    text="Bounded symbolic model checking: loss_lml_terminal_values and loss_lml_timeseries are traced on an ARBITRARY "
         "marginal / backward Markov sequence (symbolic means, factors, kernels, data and a different symbolic noise level "
         "per output time). log is uninterpreted; the returned polynomial-in-atoms is split into its log-free part and the "
         "product of the log arguments, and both are shown equal (z3 QF_LRA on linearised obligations) to the log-density of "
         "the exact joint Gaussian law of the observed coefficient at all output times (assembled from the kernels, then "
         "conditioned in covariance form), summed or averaged. Observed coefficient 0 and 1, three factorisations. Longer series are covered by the inductive step: the real scan body of evaluate_lml applied once to an arbitrary carry (sum and running mean).",
    technique="jaxpr symbolic execution + polynomial hypotheses + z3 QF_LRA (XL certificates); uninterpreted log; float64 replay",
    design="§4 C12")

CLAIMED["C19"] = dict(
    text="Bounded symbolic model checking of the real Gauss-Newton routine. (P) The real loop body is applied once -- through "
         "the routine's own while_loop argument -- to a loop state with an ARBITRARY iterate x, arbitrary mean and factor "
         "(also rank-deficient), for affine and affine+bilinear constraints with symbolic coefficients (D<=3 variables, k<=2 "
         "rows): the new iterate equals m - Sigma J^T (J Sigma J^T)^-1 (f(x) + J(m-x)) (hence lies in m + range(Sigma J^T), is "
         "the Gaussian conditional mean and feasible for affine constraints), reported residual/increment/counter are truthful; "
         "the MAP Taylor point on an arbitrary DenseNormal equals the conditional mean; residual linearisation at the MAP point "
         "reproduces an affine residual exactly (z3 QF_LRA on linearised obligations, lstsq as a contract). (S) The whole routine "
         "with its real while loop (maxiter 1..3, unrolled, unwinding condition discharged) over z3 terms with products, "
         "quotients and norms as uninterpreted functions: 0<=iters<=maxiter, early stop implies feasible-to-tolerance or "
         "stagnated, feasible start returns the start, reported residual is the constraint at the returned point. The real cond_fun is decided on an arbitrary loop state against the documented three-way rule.",
    technique="jaxpr symbolic execution + polynomial hypotheses + z3 QF_LRA (XL certificates); z3 QF_UFLRA bounded unrolling of the loop; float64 replay",
    design="§4 C19")

CLAIMED["C15"] = dict(
    text="Bounded symbolic relational check (pytree and permutation clauses only; the jit/vmap clauses are outside this "
         "technique, see the check's 'outside' list and DESIGN.md): the real solver step, both error estimators (acceptance "
         "quantity incl. contraction rate and reference), a 2-step fixed-grid solve and the jet initialisation routines are "
         "traced twice in one jaxpr -- once with the state as a dict pytree, once with the flattened array -- on the SAME "
         "symbolic state/field; every returned array, the unflattened means and standard deviations and the output structure "
         "(leading time axis) must coincide as polynomials. Swapping the two components of a d=2 problem must swap the "
         "solution (isotropic, block-diagonal; dense in the thorough tier). Identities are decided by z3 (syntactic equality "
         "confirmed by the solver), violations replayed in float64 on the real code.",
    technique="jaxpr symbolic execution of two presentations in one trace + z3 identity / QF_LRA queries; float64 replay",
    design="§4 C15")

CLAIMED["C16"] = dict(
    text="Bounded symbolic check of forward-mode derivatives: the real function is traced under jax.jvp along an arbitrary "
         "symbolic direction of all its array inputs (JAX applies its own rules and the library's single hand-written rule, "
         "the custom JVP of qr_r, with the orthogonal factor as a contract M = QR, Q^T Q = I); the returned tangent must "
         "equal the true directional derivative of the computed output, obtained by implicit symbolic differentiation of "
         "the primal output polynomials and of the defining equations of every atom (triangular factors, solves, inverses, "
         "roots). Decided by z3 QF_LRA on linearised obligations; disagreements are found by replaying jax.jvp against "
         "Richardson central differences of the real function and reported with the failing point. Covers qr_r itself, "
         "marginalise / revert / std of the three factorisations and one solver step. The known defect of the qr_r rule "
         "and its consumers is listed in known_findings.json (KNOWN-FINDING lines, exit 0); reverse mode, singular points "
         "and NaN propagation are outside.",
    technique="jaxpr symbolic execution of jax.jvp traces + implicit symbolic differentiation + z3 QF_LRA (XL certificates); jvp-vs-finite-difference replay on the real code",
    design="§4 C16")

NOT_APPLICABLE = {
    "C01": "Global error vs the true (transcendental) ODE solution and observed convergence rates in floating point "
           "cannot be expressed as a bounded real-arithmetic query over the code; its mechanisms are decided under C02, C06, C07, C09.",
    "C20": "Every clause is a Python-level exception raised from isinstance/tree-structure/.shape checks on realised JAX "
           "objects at construction time; none of it is in the jaxpr and CrossHair realises JAX arrays at the C boundary, "
           "so what remains is enumerating a finite catalogue of corruptions - a different technique.",
}

PENDING = "check not built yet in this session (solver-based harness planned in DESIGN.md §4); not claimed until it runs clean"


def main():
    props = [json.loads(l) for l in open(os.path.join(HERE, "properties.jsonl"))]
    checks = []
    na = []
    for p in props:
        pid = p["id"]
        if pid in CLAIMED:
            c = CLAIMED[pid]
            checks.append({
                "property_id": pid,
                "quick_cmd": f"./check {pid} --tier quick",
                "thorough_cmd": f"./check {pid} --tier thorough",
                "evidence_file": f"/verif/evidence/{pid}.json",
                "replay_cmd_template": f"./check {pid} --replay {{path}}",
                "engine": "jxs",
                "level_claimed": {"category": "model_checking", "text": c["text"], "design_ref": c["design"]},
                "level_note": c.get("note", P_NOTE),
                "technique": c["technique"],
            })
        else:
            na.append({"property_id": pid, "reason": NOT_APPLICABLE.get(pid, PENDING)})
    man = {
        "version": 1,
        "setup_cmd": "./vp_env.sh",
        "hooks": {"guard": "PROBDIFFEQ_VERIF", "enable": "no source hooks are needed: harnesses pass scripted objects to "
                  "public entry points and trace the unmodified library with jax.make_jaxpr",
                  "baseline_off_cmd": "cd /repo && /venv/bin/python -m pytest -ra -q -p no:cacheprovider --timeout=900 "
                                      "--continue-on-collection-errors",
                  "source_commits": [], "add_only": True},
        "engines": [{"name": "jxs", "path": "/verif/jxs", "serves_properties": sorted(CLAIMED),
                     "kind_free_text": "symbolic execution of jaxprs of the real library (exact polynomial domain and z3 "
                                       "term domain) with SMT back ends: z3 QF_LRA on linearised polynomial-identity "
                                       "obligations, z3 NRA for refutation, z3 LRA/NRA with ite for control flow"}],
        "checks": checks,
        "not_applicable": na,
        "notes": "Every claim is bounded (sizes, unrollings) and over the reals; see DESIGN.md. Exit 3 = inconclusive "
                 "(never reported as success). known_findings.json lists recorded defects and fix: commits.",
    }
    with open(os.path.join(HERE, "MANIFEST.json"), "w") as f:
        json.dump(man, f, indent=1)
    print("wrote MANIFEST.json:", len(checks), "checks,", len(na), "not_applicable")


if __name__ == "__main__":
    main()
