#!/bin/sh
# replay_seeded.sh [id-glob]: apply every archived seeded change to /repo, run the quick check named in its meta.json,
# report whether it raises a VIOLATION, and always restore /repo.  Exit 0 iff every change behaves as recorded.
cd /verif
PAT="${1:-*}"
BAD=0
git -C /repo diff --quiet || { echo "/repo not clean"; exit 2; }
for D in seeded/$PAT; do
  ID=$(basename "$D")
  P="/verif/$D/patch.diff"; [ -f "/verif/$D/patch_adapted.diff" ] && P="/verif/$D/patch_adapted.diff"
  CHK=$(python3 -c "import json,re,sys; m=json.load(open('$D/meta.json')); r=re.findall(r'\./check (C\d\d)', m['detected_by']+' '+m.get('note','')); print(r[-1] if 'MISSED by ./check C10' in m['detected_by'] else (r[0] if r else '$ID'[:3]))")
  EXPECT=$(python3 -c "import json; m=json.load(open('$D/meta.json')); print('missed' if m['detected_by'].startswith('MISSED') and 'caught by' not in m['detected_by'] else 'caught')")
  git -C /repo apply "$P" || { echo "$ID patch does not apply"; BAD=1; continue; }
  OUT=$(./check "$CHK" --tier quick --no-evidence 2>&1); RC=$?
  git -C /repo checkout -- .
  N=$(echo "$OUT" | grep -c '^VIOLATION')
  if [ "$EXPECT" = caught ] && [ $RC -eq 1 ]; then echo "$ID: caught by $CHK ($N VIOLATION lines)";
  elif [ "$EXPECT" = missed ] && [ $RC -eq 0 ]; then echo "$ID: missed by $CHK as recorded (rc=0)";
  else echo "$ID: UNEXPECTED rc=$RC expected=$EXPECT check=$CHK"; BAD=1; fi
done
exit $BAD
