#!/bin/sh
# replay_seeded.sh [id-glob]: apply every archived seeded change to a scratch worktree of /repo (never to /repo itself),
# run the quick check named in its meta.json against that tree (VERIF_REPO), report whether it raises a VIOLATION.
# Exit 0 iff every change behaves as recorded.  The worktree is removed afterwards.
cd /verif
PAT="${1:-*}"
WT="${REPLAY_WT:-/tmp/verif_replay_wt}"
BAD=0
git -C /repo worktree remove --force "$WT" 2>/dev/null
git -C /repo worktree add --detach "$WT" HEAD -q || exit 2
for D in seeded/$PAT; do
  ID=$(basename "$D")
  P="/verif/$D/patch.diff"; [ -f "/verif/$D/patch_adapted.diff" ] && P="/verif/$D/patch_adapted.diff"
  CHK=$(python3 -c "import json,re; m=json.load(open('$D/meta.json')); t=m['detected_by']; r=re.findall(r'\./check (C\d\d)', t); print((re.findall(r'caught by \./check (C\d\d)', t) or r or ['$ID'[:3]])[0])")
  EXPECT=$(python3 -c "import json; m=json.load(open('$D/meta.json')); t=m['detected_by']; print('missed' if t.startswith('MISSED') and 'caught by' not in t else 'caught')")
  git -C "$WT" apply "$P" || { echo "$ID patch does not apply"; BAD=1; continue; }
  OUT=$(VERIF_REPO="$WT" ./check "$CHK" --tier quick --no-evidence 2>&1); RC=$?
  git -C "$WT" checkout -- .
  N=$(echo "$OUT" | grep -c '^VIOLATION')
  if [ "$EXPECT" = caught ] && [ $RC -eq 1 ]; then echo "$ID: caught by $CHK ($N VIOLATION lines)";
  elif [ "$EXPECT" = missed ] && [ $RC -eq 0 ]; then echo "$ID: missed by $CHK as recorded (rc=0)";
  else echo "$ID: UNEXPECTED rc=$RC expected=$EXPECT check=$CHK"; BAD=1; fi
done
git -C /repo worktree remove --force "$WT" 2>/dev/null
exit $BAD
