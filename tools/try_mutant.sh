#!/bin/sh
# try_mutant.sh <patch.diff> <Cnn> [extra check args]: apply to /repo, run the quick check, always undo
P="$1"; PROP="$2"; shift 2
git -C /repo diff --quiet || { echo "/repo not clean"; exit 2; }
git -C /repo apply "$P" || { echo "patch does not apply"; exit 2; }
/verif/check "$PROP" --tier quick --no-evidence "$@"; RC=$?
git -C /repo checkout -- .
echo "check exit code: $RC"
exit $RC
