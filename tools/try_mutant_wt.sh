#!/bin/sh
# try_mutant_wt.sh <worktree> <patch.diff> <Cnn> [extra check args]: apply the patch inside a scratch worktree of /repo and run
# the quick check against THAT tree (VERIF_REPO), leaving /repo untouched; always restores the worktree.
WT="$1"; P="$2"; PROP="$3"; shift 3
git -C "$WT" diff --quiet || { echo "$WT not clean"; exit 2; }
git -C "$WT" apply "$P" || { echo "patch does not apply"; exit 2; }
VERIF_REPO="$WT" /verif/check "$PROP" --tier quick --no-evidence "$@"; RC=$?
git -C "$WT" checkout -- .
echo "check exit code: $RC"
exit $RC
