#!/bin/sh
# run every claimed quick (or thorough) check and print one summary line each
TIER="${1:-quick}"
cd /verif
for P in $(python3 -c "import json; print(' '.join(c['property_id'] for c in json.load(open('MANIFEST.json'))['checks']))"); do
  S=$(date +%s)
  OUT=$(./check "$P" --tier "$TIER" 2>&1); RC=$?
  E=$(date +%s)
  echo "$P rc=$RC $((E-S))s $(echo "$OUT" | grep '^== ' | tail -1)"
  echo "$OUT" | grep -E "^VIOLATION|^INCONCLUSIVE|^HARNESS-ERROR" | head -5 | cut -c1-200
done
