"""C14 -- state-space factorisations agree wherever theory says they must (back end P, relational)."""
import numpy as np

from jxs.harness import PCase, sym_array, Orc, scalar
from jxs.poly import Poly
from props import common as cm
from props import solvercommon as sc

META = {
    "level": "model_checking",
    "functions": ["state_space_model_{dense,isotropic,blockdiag}: prior_wiener_integrated, constraint_ode_ts0/ts1",
                  "solver/solver_mle/solver_dynamic.step", "*OdeTs0.linearize", "*Residual.linearize",
                  "jacobian_materialize.materialize_dense/calculate_trace_along_d/calculate_diagonal_along_d",
                  "*LatentCond.marginalise/revert/apply_flat", "*Normal.residual_whitened_rms_*"],
    "bounds": {"quick": "d=2, q=1, one step of the three factorisations side by side from CORRESPONDING arbitrary states (a shared "
                        "symbolic (n x n) Cholesky factor, embedded as kron(C, I_d) / d equal blocks), default base scales, symbolic "
                        "h, t; TS0 with an arbitrary (polynomial, coupled, non-autonomous) field in all three calibration modes; TS1 "
                        "with a componentwise-decoupled field (blockdiag vs dense) and a field whose Jacobian is a multiple of the "
                        "identity (isotropic vs dense)",
               "thorough": "additionally second-order ODEs with q=2 and the MLE mode for the identity-Jacobian TS1 case (structured models)"},
    "assumptions": ["A1 reals", "A2/A3 contracts", "agreement on longer grids follows by induction from the step (stated)"],
    "outside": ["adaptive runs (step sequences coincide because the acceptance quantity coincides: C07 + C06)"],
}


def cases(tier):
    # the dense model itself against the dense textbook reference is C02; here the structured models (d=2)
    out = []
    for ssm in ("isotropic", "blockdiag"):
        for calib in ("none", "mle"):
            out.append(f"ts0/{calib}/{ssm}/o1q1d2")
    out += ["ts1dec/none/blockdiag/o1q1d2", "ts1iso/none/isotropic/o1q1d2"]
    out += ["ts0damp/none/isotropic/o1q1d2", "ts0damp/none/blockdiag/o1q1d2"]
    if tier == "thorough":
        # (the dense model with a generic 4x4 factor at d=2 and the dynamic mode are not decided within 40 min per case;
        #  the dense model is tied to the same reference under C02)
        out += ["ts1iso/mle/isotropic/o1q1d2"]
        for ssm in ("isotropic", "blockdiag"):
            out.append(f"ts0/none/{ssm}/o2q2d2")
    return out


def build(case_id):
    """every factorisation is compared with ONE common reference: the dense textbook EKF step on the dense embedding of
    the shared state (Cholesky factor kron(C, I_d)); factorisations that both match it agree with each other"""
    kind, calib, ssm, sz = case_id.split("/")
    import re
    order, q, d = map(int, re.match(r"o(\d+)q(\d+)d(\d+)", sz).groups())
    n = q + 1
    lin = "ts0" if kind.startswith("ts0") else "ts1"
    damped = kind == "ts0damp"
    cfg = sc.Cfg(ssm=ssm, q=q, d=d, order=order, lin=lin, calib=calib, strategy="filter", damp="zero")
    cfg_ref = sc.Cfg(ssm="dense", q=q, d=d, order=order, lin=lin, calib=calib, strategy="filter", damp="zero")

    def make(dom):
        from probdiffeq._probdiffeq.solvers import ProbabilisticSolution
        C = sym_array(dom, "C", (n, n), "lower")
        M = sym_array(dom, "M", (n, d))
        t0 = sym_array(dom, "t0", ())
        h = sym_array(dom, "h", (), unit=True)
        run = sym_array(dom, "run", ())
        if kind.startswith("ts0"):
            co = {"c": sym_array(dom, "f0", (d,)), "e": sym_array(dom, "ft", (d,)),
                  "C": sym_array(dom, "fC", (d, d)), "g": sym_array(dom, "fg", (d,))}
            if order == 2:
                co["D"] = sym_array(dom, "fD", (d, d))
        else:
            # TS1: the field is parametrised by its value/Jacobian at the (correct) linearisation point
            orc0 = Orc(dom)
            prior_r = sc.concrete_prior(cfg_ref)
            A0, Q0 = sc.prior_dense(orc0, cfg_ref, prior_r, {"q1": np.ones((n, n)), "lam": orc0.arr(np.ones((d,)))})
            Ah0, _, _ = sc.transition_dense(orc0, cfg_ref, h[()], A0, Q0)
            mp0 = Ah0.dot(M.reshape(-1))
            ustar = sc.selector(orc0, cfg_ref, 0).dot(mp0)
            dustar = sc.selector(orc0, cfg_ref, 1).dot(mp0) if order == 2 else None
            co = sc.field_coeffs_at(dom, d, order, ustar, dustar, t0[()] + h[()], jac="diag" if kind == "ts1dec" else "scalar")
        co_c = {k: np.ones(np.shape(v)) for k, v in co.items()}
        solver_t, _, _ = sc.make_solver(cfg, co_c)
        prior_c = sc.concrete_prior(cfg)
        # default base scales (ones), symbolic 1-d noise factor shared by all three factorisations
        prior_sym, pinfo = sc.sym_prior(dom, cfg, prior_c, base_scale=(np.ones(()) if ssm == "isotropic" else np.ones((d,))))
        make.q1 = pinfo["q1"]
        st0 = solver_t.init(t=0.0, u=prior_c, damp=0.0)
        _, Normal = cm.impl(ssm)
        if ssm == "dense":
            m = M.reshape(-1)
            L = cm.embed_mat(Orc(dom), "isotropic", C, d)
        elif ssm == "isotropic":
            m, L = M, C
        else:
            m = M.T
            L = np.stack([C] * d)
        u = Normal(m, L, st0.u.tree_flatten)
        aux = st0.auxiliary
        if calib == "mle":
            r = run if ssm != "blockdiag" else np.array([run[()]] * d, dtype=object)
            aux = (st0.auxiliary[0], r, 1.0)
        state = ProbabilisticSolution(t=t0, u=u, solution_full=u, output_scale=st0.output_scale,
                                      num_steps=st0.num_steps, auxiliary=aux, fun_evals=st0.fun_evals, prior=prior_sym)

        damp = sym_array(dom, "damp", ()) if damped else np.zeros(())

        def fn(state, h, co, extras):
            import jax.numpy as jnp
            solver, _, _ = sc.make_solver(cfg, co)
            o = solver.step(state, dt=h, damp=extras["damp"])
            return o.u, o.output_scale, o.auxiliary, jnp.stack(o.u.std)
        make.prior = prior_c
        return fn, (state, h, co, {"C": C, "M": M, "t0": t0, "run": run, "damp": damp, "q1": pinfo["q1"]})

    def goals(args, out, orc):
        state, h, co, ex = args
        u, oscale, aux, std = out
        prior_ref = sc.concrete_prior(cfg_ref)
        one = orc.arr(np.ones((d,)))
        A, Q = sc.prior_dense(orc, cfg_ref, prior_ref, {"q1": ex["q1"], "lam": one})
        md = orc.arr(ex["M"]).reshape(-1)
        Ld = cm.embed_mat(orc, "isotropic", ex["C"], d)
        Pd = Ld.dot(Ld.T)
        hh = sc.sc(orc.arr(h)); t0 = sc.sc(orc.arr(ex["t0"]))
        dd = sc.sc(orc.arr(ex["damp"]))
        if kind == "ts1dec":
            # componentwise-decoupled field: the block-diagonal model must equal d INDEPENDENT scalar dense solves
            cfg1 = sc.Cfg(ssm="dense", q=q, d=1, order=order, lin=lin, calib=calib, strategy="filter", damp="zero")
            prior1 = sc.concrete_prior(cfg1)
            A1, Q1 = sc.prior_dense(orc, cfg1, prior1, {"q1": ex["q1"], "lam": orc.arr(np.ones((1,)))})
            Cn = orc.arr(ex["C"]); Mn = orc.arr(ex["M"])
            mo, Po = cm.dense_rv(orc, ssm, u, d)
            res = {}
            for a in range(d):
                co_a = {k: (orc.arr(v)[a:a + 1] if np.ndim(v) == 1 else orc.arr(v)[a:a + 1, a:a + 1]) for k, v in co.items()}
                ref_a = sc.ekf_step(orc, cfg1, co_a, Mn[:, a], Cn.dot(Cn.T), t0, hh, dd, A1, Q1)
                sel = [i * d + a for i in range(n)]
                res[f"dimension {a}: mean = scalar dense solve"] = (mo[sel], ref_a["mean"])
                res[f"dimension {a}: cov = scalar dense solve"] = (Po[np.ix_(sel, sel)], ref_a["cov"])
            other = [(i * d + a, j * d + b) for i in range(n) for j in range(n) for a in range(d) for b in range(d) if a != b]
            res["no correlation between dimensions"] = (np.array([Po[i, j] for i, j in other], dtype=object if orc.sym else float),
                                                         orc.zeros((len(other),)))
            return res
        ref = sc.ekf_step(orc, cfg_ref, co, md, Pd, t0, hh, dd, A, Q, running=ex["run"])
        mo, Po = cm.dense_rv(orc, ssm, u, d)
        res = {"mean = dense reference": (mo, ref["mean"])}
        if calib == "none" or ssm != "blockdiag":
            res["cov = dense reference"] = (Po, ref["cov"])
            # reported standard deviations (caller's structure: one entry per Taylor coefficient)
            sd = orc.arr(std)
            diag = np.array([ref["cov"][i, i] for i in range(n * d)], dtype=object if orc.sym else float).reshape(n, d)
            want = diag[:, 0] if ssm == "isotropic" else diag
            res["reported std^2 = diagonal of the dense reference covariance"] = (sd * sd, want)
        if calib == "mle":
            r = orc.arr(aux[1])
            if ssm == "blockdiag":
                from fractions import Fraction
                tot = r[0] * r[0]
                for k in range(1, d):
                    tot = tot + r[k] * r[k]
                tot = tot * (Poly.const(Fraction(1, d)) if orc.sym else 1.0 / d)
                res["MLE: mean over dimensions of scale^2 = dense scale^2"] = (orc.arr(tot) if orc.sym else np.asarray(tot),
                                                                            orc.arr(ref["running2"]))
            else:
                res["MLE scale^2 = dense reference"] = (r * r, orc.arr(ref["running2"]))
        if calib.startswith("dynamic"):
            s_ = orc.arr(oscale)
            res["dynamic scale^2 = dense reference"] = (s_ * s_, orc.arr(ref["scale2"]))
        return res
    return make, goals


def _case(case_id, tier):
    make, goals = build(case_id)
    return PCase("C14/" + case_id, make, goals, budget_s=300 if tier == "quick" else 1200)


def run_case(case_id, tier="quick", seed=0, replay_dir=None, log=print):
    return _case(case_id, tier).run(seed=seed, log=log, replay_dir=replay_dir)


def replay(path):
    import json
    with open(path) as f:
        data = json.load(f)
    return _case(data["case"].split("/", 1)[1], "quick").replay(path)
