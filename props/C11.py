"""C11 -- jet lifting and constraint constructors differentiate constraints exactly (direct back end)."""
import numpy as np

from jxs.direct import DCase
from jxs.harness import sym_array, scalar
from jxs.poly import Poly
from jxs import poly as P
from props import common as cm

META = {
    "level": "model_checking",
    "functions": ["JetAbstract.lift", "JetOde.jet_lift/jet_lift_max", "JetResidual.jet_lift/jet_lift_max",
                  "problems.args_autonomous_and_jet_compatible", "problems.residual_from_ode/residual_from_stack",
                  "problems.ode/ode_order_two/residual_position/residual_velocity/residual_acceleration",
                  "{Dense,Isotropic,BlockDiag}OdeTs0.linearize", "{Dense,Isotropic,BlockDiag}Residual.linearize",
                  "StateSpaceModel.constraint_ode_ts1", "backend.func.jet"],
    "bounds": {"quick": "polynomial right-hand sides / residuals of total degree 2 in (u,u',u'',t) with symbolic coefficients, "
                        "d=2, differential order 0..2, lift orders 0..2, symbolic Taylor coefficients and time; linearize(): "
                        "three factorisations, q<=2, d=2",
               "thorough": "lift orders up to 4, d=3"},
    "assumptions": ["A1 reals", "A6 polynomial constraints with symbolic coefficients"],
    "outside": ["non-polynomial constraints", "lift orders above the bound",
                "the admissible lift_by range is a finite set of Python ints: enumerated concretely (accepted values are "
                "verified symbolically, rejected ones must raise) -- configuration enumeration, not a solver claim"],
}


def cases(tier):
    out = []
    lifts = (0, 1, 2) if tier == "quick" else (0, 1, 2, 3, 4)
    for order in (1, 2):
        for m in lifts:
            out.append(f"ode_lift/o{order}/m{m}/d2")
    for order in (0, 1, 2):
        for m in lifts:
            out.append(f"res_lift/o{order}/m{m}/d2")
    out.append("from_ode/o1/m1/d2")
    out.append("from_ode/o2/m1/d2")
    out.append("stack/o1/m1/d2")
    out.append("lift_max/o1/m0/d2")
    out.append("lift_max/o2/m0/d2")
    for kind in ("ode_surplus", "res_surplus"):
        out.append(f"{kind}/o1/m1/d2")
        out.append(f"{kind}/o2/m0/d2")
    out.append("range/o1/m0/d2")
    for ssm in cm.SSMS:
        out.append(f"linearize_ts0/{ssm}/o1q2")
        out.append(f"linearize_ts0/{ssm}/o2q2")
        out.append(f"linearize_ts1/{ssm}/o1q1")
        out.append(f"linearize_ts1/{ssm}/o2q2")
    return out


def coeffs(dom, d, nargs, pfx="c"):
    """polynomial of degree 2 in nargs jet coordinates (each d-dim) and t: f_a = c_a + sum_j L_j u_j + e t + k u_0 t
    + sum_j g_j u_j^2 + x u_0 u_last (elementwise) + e2 t^2"""
    co = {"c": sym_array(dom, pfx + "0", (d,)), "e": sym_array(dom, pfx + "t", (d,)), "e2": sym_array(dom, pfx + "tt", (d,)),
          "k": sym_array(dom, pfx + "k", (d,))}
    for j in range(nargs):
        co[f"L{j}"] = sym_array(dom, pfx + f"L{j}", (d, d))
        co[f"g{j}"] = sym_array(dom, pfx + f"g{j}", (d,))
    if nargs >= 1:
        co["x"] = sym_array(dom, pfx + "x", (d,))
    return co


def feval(co, us, t):
    nargs = len(us)
    r = co["c"] + co["e"] * t + co["e2"] * t * t
    for j in range(nargs):
        r = r + co[f"L{j}"] @ us[j] + co[f"g{j}"] * us[j] * us[j]
    if nargs >= 1:
        r = r + co["k"] * us[0] * t + co["x"] * us[0] * us[-1]
    return r


def total_derivatives(expr, U, tvar, m):
    """[f, Df, ..., D^m f] with D = d/dt + sum_j U[j+1] d/dU[j]; U: list of arrays of single-variable Polys"""
    uids = [[list(p.vars())[0] for p in Uj] for Uj in U]

    def D(p):
        r = p.diff(tvar)
        for j in range(len(U) - 1):
            for b, v in enumerate(uids[j]):
                dp = p.diff(v)
                if dp.t:
                    r = r + dp * U[j + 1][b]
        # dependence on the highest supplied coefficient would need one more coefficient
        return r
    out = [np.array(list(expr), dtype=object)]
    for _ in range(m):
        out.append(np.array([D(p) for p in out[-1]], dtype=object))
    return out


def build(case_id, tier):
    if case_id.startswith("linearize"):
        return build_linearize(case_id)
    kind, a, b, c = case_id.split("/")
    order = int(a[1:]); m = int(b[1:]); d = int(c[1:])

    def make(dom):
        from probdiffeq import probdiffeq
        nargs = order if kind in ("ode_lift", "lift_max", "range", "ode_surplus") else (order + 1 if kind in ("res_lift", "res_surplus") else order)
        if kind == "from_ode":
            nargs = order
        if kind == "stack":
            nargs = 2
        co = coeffs(dom, d, nargs)
        ncoef = {"ode_lift": order + m, "lift_max": order + 2, "range": order + 1, "res_lift": order + 1 + m,
                 "from_ode": order + 1 + m, "stack": 2 + m, "ode_surplus": order + m + 2, "res_surplus": order + 1 + m + 2}[kind]
        U = [sym_array(dom, f"u{j}", (d,)) for j in range(ncoef)]
        t = sym_array(dom, "t", ())
        make.sym = (co, U, t)

        def mk_ode(co):
            if order == 1:
                return probdiffeq.ode(lambda y, *, t: feval(co, [y], t))
            return probdiffeq.ode_order_two(lambda y, dy, *, t: feval(co, [y, dy], t))

        def fn(co, U, t):
            import jax.numpy as jnp
            if kind == "ode_surplus":
                vf = mk_ode(co).jet_lift(lift_by=m)
                return list(vf.vector_field(jet_coords=list(U), t=t))     # more coefficients than the lift needs
            if kind == "res_surplus":
                wrap = {0: probdiffeq.residual_position, 1: probdiffeq.residual_velocity, 2: probdiffeq.residual_acceleration}[order]
                res = wrap((lambda y, dy, *, t: feval(co, [y, dy], t)) if order == 1 else
                           (lambda y, dy, ddy, *, t: feval(co, [y, dy, ddy], t)))
                return list(res.jet_lift(lift_by=m).residual_function(jet_coords=list(U), t=t))
            if kind == "ode_lift":
                vf = mk_ode(co).jet_lift(lift_by=m)
                out = vf.vector_field(jet_coords=list(U), t=t)
                # bookkeeping of the lifted problem (plain Python attributes): returned as data and decided as obligations
                book = jnp.asarray([float(x) for x in vf.tcoeff_indices_output] + [float(vf.num_tcoeffs_in_args)])
                return list(out) + [book]
            if kind == "lift_max":
                vf = mk_ode(co).jet_lift_max(num_tcoeffs=len(U))      # lifts by len(U) - order - 1
                book = jnp.asarray([float(x) for x in vf.tcoeff_indices_output] + [float(vf.num_tcoeffs_in_args)])
                return list(vf.vector_field(jet_coords=list(U[: vf.num_tcoeffs_in_args]), t=t)) + [book]
            if kind == "res_lift":
                wrap = {0: probdiffeq.residual_position, 1: probdiffeq.residual_velocity, 2: probdiffeq.residual_acceleration}[order]
                if order == 0:
                    res = wrap(lambda y, *, t: feval(co, [y], t))
                elif order == 1:
                    res = wrap(lambda y, dy, *, t: feval(co, [y, dy], t))
                else:
                    res = wrap(lambda y, dy, ddy, *, t: feval(co, [y, dy, ddy], t))
                lifted = res.jet_lift(lift_by=m)
                out = lifted.residual_function(jet_coords=list(U), t=t)
                assert lifted.num_tcoeffs_in_args == order + 1 + m
                return list(out)
            if kind == "from_ode":
                res = probdiffeq.residual_from_ode(mk_ode(co)).jet_lift(lift_by=m)
                return list(res.residual_function(jet_coords=list(U), t=t))
            if kind == "stack":
                r1 = probdiffeq.residual_position(lambda y, *, t: co["c"] + co["L0"] @ y + co["e"] * t)
                r2 = probdiffeq.residual_velocity(lambda y, dy, *, t: feval(co, [y, dy], t))
                st = probdiffeq.residual_from_stack(r1, r2)
                out = st.residual_function(jet_coords=list(U[:2]), t=t)
                return [jnp.concatenate([jnp.ravel(x) for x in jax_leaves(out)])]
            raise KeyError(kind)
        return fn, (co, U, t)

    def goals(args, out, orc):
        co_s, U_s, t_s = make.sym
        (tvar,) = t_s[()].vars()
        Ul = [list(u) for u in U_s]
        if kind in ("ode_lift", "lift_max", "ode_surplus"):
            f = feval(co_s, [np.array(Ul[j], dtype=object) for j in range(order)], t_s[()])
            mm = m if kind in ("ode_lift", "ode_surplus") else len(U_s) - order - 1
            want = total_derivatives(f, Ul, tvar, mm)
        elif kind in ("res_lift", "res_surplus"):
            f = feval(co_s, [np.array(Ul[j], dtype=object) for j in range(order + 1)], t_s[()])
            want = total_derivatives(f, Ul, tvar, m)
        elif kind == "from_ode":
            f = np.array(Ul[order], dtype=object) - feval(co_s, [np.array(Ul[j], dtype=object) for j in range(order)], t_s[()])
            want = total_derivatives(f, Ul, tvar, m)
        elif kind == "stack":
            u0, u1 = np.array(Ul[0], dtype=object), np.array(Ul[1], dtype=object)
            r1 = co_s["c"] + co_s["L0"] @ u0 + co_s["e"] * t_s[()]
            r2 = feval(co_s, [u0, u1], t_s[()])
            want = [np.concatenate([r1, r2])]
        res = {}
        if kind in ("ode_lift", "lift_max"):
            out = list(out)
            book = np.asarray(out.pop(), dtype=float)
            mm_ = len(want) - 1
            expect = np.asarray([float(order + l) for l in range(mm_ + 1)] + [float(order + mm_)])
            ok = book.shape == expect.shape and bool(np.all(book == expect))
            res["lifted outputs are paired with Taylor coefficients order..order+m; arguments = order+m [concrete]"] = (
                orc.arr(np.asarray(1.0 if ok else 0.0)), orc.arr(np.asarray(1.0)))
        res["number of outputs = lift_by + 1"] = (orc.arr(np.asarray(float(len(out)))), orc.arr(np.asarray(float(len(want)))))
        if orc.sym:
            for i, (x, w) in enumerate(zip(out, want)):
                res[f"d^{i}/dt^{i}"] = (orc.arr(x), w)
            return res
        co, U, t = args
        env = {}

        def bind(sym, val):
            for p, v in zip(np.asarray(sym).reshape(-1), np.asarray(val, dtype=float).reshape(-1)):
                if isinstance(p, Poly) and p.t:
                    (mono, cc), = p.t.items()
                    env[mono[0][0]] = float(v)
        for kk in co_s:
            bind(co_s[kk], co[kk])
        for us, uv in zip(U_s, U):
            bind(us, uv)
        bind(t_s, t)
        for i, (x, w) in enumerate(zip(out, want)):
            res[f"d^{i}/dt^{i}"] = (np.asarray(x, dtype=float), np.array([float(p.eval(env)) for p in w]))
        return res
    if kind == "range":
        return build_range(order, d)
    return make, goals


def jax_leaves(x):
    import jax
    return jax.tree_util.tree_leaves(x)


def build_range(order, d):
    """accepted lift orders give the derivatives (checked by the other cases); rejected ones must raise"""
    def make(dom):
        from probdiffeq import probdiffeq
        co = coeffs(dom, d, order)
        U = [sym_array(dom, f"u{j}", (d,)) for j in range(order + 1)]
        t = sym_array(dom, "t", ())
        make.sym = (co, U, t)

        def fn(co, U, t):
            import jax.numpy as jnp
            vf0 = probdiffeq.ode(lambda y, *, t: feval(co, [y], t))
            upper = len(U) - order
            flags = []
            for lb in range(-2, upper + 3):
                try:
                    vf0.jet_lift(lift_by=lb).vector_field(jet_coords=list(U), t=t)
                    flags.append(1.0)
                except ValueError:
                    flags.append(0.0)
            bad_type = 0.0
            try:
                vf0.jet_lift(lift_by=1.0)
            except TypeError:
                bad_type = 1.0
            return [jnp.asarray(flags) + 0.0 * t, jnp.asarray(bad_type) + 0.0 * t]
        return fn, (co, U, t)

    def goals(args, out, orc):
        upper = 1
        want = np.array([1.0 if 0 <= lb <= upper else 0.0 for lb in range(-2, upper + 3)])
        return {"accepted exactly for 0<=lift_by<=upper": (orc.arr(out[0]), orc.arr(want)),
                "non-int lift_by rejected": (orc.arr(out[1]), orc.arr(np.asarray(1.0)))}
    return make, goals


def build_linearize(case_id):
    kind, ssm, sz = case_id.split("/")
    import re
    order, q = map(int, re.match(r"o(\d+)q(\d+)", sz).groups())
    d, n = 2, q + 1
    ts1 = kind.endswith("ts1")

    def make(dom):
        from probdiffeq import probdiffeq
        co = coeffs(dom, d, order)
        m, L = cm.sym_rv(dom, ssm, n, d, "r")
        t = sym_array(dom, "t", ())
        damp = sym_array(dom, "damp", ())
        Cond, Normal = cm.impl(ssm)
        import jax.numpy as jnp
        mean = [jnp.zeros((d,)) for _ in range(n)]
        std = [jnp.zeros(()) for _ in range(n)] if ssm == "isotropic" else mean
        tf = Normal.from_mean_and_std(mean, std).tree_flatten
        make.sym = (co, m, t)

        def fn(co, rv, t, damp):
            jac = probdiffeq.jacobian_materialize()
            if order == 1:
                vf = probdiffeq.ode(lambda y, *, t: feval(co, [y], t), jacobian=jac)
            else:
                vf = probdiffeq.ode_order_two(lambda y, dy, *, t: feval(co, [y, dy], t), jacobian=jac)
            f = cm.factory(ssm)
            con = f.constraint_ode_ts1(vf) if ts1 else f.constraint_ode_ts0(vf)
            state = con.init_linearization()
            cond, _ = con.linearize(Normal(*rv, tf), state, damp=damp, t=t)
            return cond
        return fn, (co, (m, L), t, damp)

    def goals(args, out, orc):
        co, (m, L), t, damp = args
        co = {k: orc.arr(v) for k, v in co.items()}
        md = cm.embed_vec(orc, ssm, m, d)
        tt = orc.arr(t)[()]
        us = [md[j * d:(j + 1) * d] for j in range(order)]
        fval = feval(co, us, tt)
        A, b, Qc = cm.dense_cond(orc, ssm, out, d)
        N = n * d
        # exact Jacobian of the constraint u^(order) - f wrt the dense state
        J = orc.zeros((d, N))
        for a in range(d):
            J[a, order * d + a] = Poly.const(1) if orc.sym else 1.0
        if ts1:
            for j in range(order):
                Jj = orc.arr(co[f"L{j}"]).copy()
                for a in range(d):
                    Jj[a, a] = Jj[a, a] + 2 * co[f"g{j}"][a] * us[j][a]
                if j == 0:
                    for a in range(d):
                        Jj[a, a] = Jj[a, a] + co["k"][a] * tt + co["x"][a] * us[-1][a]
                if j == order - 1:
                    for a in range(d):
                        Jj[a, a] = Jj[a, a] + co["x"][a] * us[0][a]
                if ssm == "isotropic":
                    tr = Jj[0, 0]
                    for a in range(1, d):
                        tr = tr + Jj[a, a]
                    half = Poly.const(P.Fraction(1, d)) if orc.sym else 1.0 / d
                    Jn = orc.zeros((d, d))
                    for a in range(d):
                        Jn[a, a] = tr * half
                    Jj = Jn
                elif ssm == "blockdiag":
                    Jn = orc.zeros((d, d))
                    for a in range(d):
                        Jn[a, a] = Jj[a, a]
                    Jj = Jn
                for a in range(d):
                    for bb in range(d):
                        J[a, j * d + bb] = J[a, j * d + bb] - Jj[a, bb]
        val = md[order * d:(order + 1) * d] - fval
        dd = orc.arr(damp)[()]
        res = {"A = Jacobian (documented structure)": (A, J),
               "A m + offset = constraint value at m": (A.dot(md) + b, val),
               "noise = damp^2 I": (Qc, orc.eye(d) * (dd * dd))}
        return res
    return make, goals


def _case(case_id, tier):
    make, goals = build(case_id, tier)
    return DCase("C11/" + case_id, make, goals)


def run_case(case_id, tier="quick", seed=0, replay_dir=None, log=print):
    return _case(case_id, tier).run(seed=seed, log=log, replay_dir=replay_dir)


def replay(path):
    import json
    with open(path) as f:
        data = json.load(f)
    return _case(data["case"].split("/", 1)[1], "quick").replay(path)
