"""C05 -- checkpoint values do not depend on the checkpoint set; they interpolate exactly.

Part P (this file, back end P): ProbabilisticSolver.interpolate_fwd / interpolate_fwd_at_t1 with the three
strategies, from two ARBITRARY solver states, equals exact Gaussian conditioning (joint-law form).
Part S (props/C05s.py logic, back end S, run from here): the real adaptive driver with a scripted solver --
the accepted step sequence does not depend on the checkpoint set, and consecutive interpolations inside one
step are chained through the states returned by the previous interpolation.
"""
import numpy as np

from jxs.harness import PCase, sym_array, Orc, scalar
from jxs.poly import Poly
from props import common as cm
from props import solvercommon as sc

META = {
    "level": "model_checking",
    "functions": ["ProbabilisticSolver.interpolate_fwd/interpolate_fwd_at_t1", "strategy_filter.interpolate_fwd/"
                  "interpolate_fwd_at_t1", "strategy_smoother_fixedinterval.interpolate_fwd/interpolate_fwd_at_t1",
                  "strategy_smoother_fixedpoint.interpolate_fwd/interpolate_fwd_at_t1", "*WienerIntegrated.transition",
                  "*LatentCond.revert/merge/marginalise", "RejectionLoop.loop/interp_beyond_t1/interp_at_t1/interp_skip",
                  "solve_adaptive_save_at.advance", "solve_adaptive_terminal_values"],
    "bounds": {"quick": "P: q=1, d=1, three ssm x three strategies, arbitrary symbolic states at both ends, symbolic t0 < t < t1; "
                        "S: checkpoint sets A=(T0,T2) subset of B=(T0,T1,T2), <=2 loop iterations per checkpoint, <=2 attempts per "
                        "rejection loop, integral controller, no clipping, arbitrary error profile",
               "thorough": "P: additionally d=2 (isotropic/blockdiag); S: <=3 attempts"},
    "assumptions": ["A1 reals", "A2/A3 contracts", "the prior is given by its symbolic (preconditioned) noise factor; that two "
                    "IWP transitions compose (Chapman-Kolmogorov) is decided under C09", "S: unwinding assumptions as in C06"],
    "outside": ["offgrid_marginals (searchsorted on realised grids)", "more than one extra checkpoint"],
}


def cases(tier):
    out = []
    for ssm in cm.SSMS:
        for strat in ("filter", "fixedinterval", "fixedpoint"):
            out.append(f"interp/{ssm}/{strat}/none/ts0/o1q1d1/damp_zero")
            out.append(f"interp_at/{ssm}/{strat}/none/ts0/o1q1d1/damp_zero")
        out.append(f"interp/{ssm}/filter/dynamic/ts0/o1q1d1/damp_zero")
        out.append(f"interp_at/{ssm}/filter/dynamic/ts0/o1q1d1/damp_zero")
    out.append("interp/blockdiag/fixedpoint/dynamic/ts0/o1q1d2/damp_zero")
    for ctrl in ("i",):
        out.append(f"sets/{ctrl}/noclip/o2i2")
        out.append(f"chain/{ctrl}/noclip/o2i2")
        out.append(f"terminal/{ctrl}/noclip/o2i2")
        out.append(f"terminal/{ctrl}/clip/o2i2")
    if tier == "thorough":
        for ssm in ("isotropic", "blockdiag"):
            for strat in ("fixedinterval", "fixedpoint"):
                out.append(f"interp/{ssm}/{strat}/none/ts0/o1q1d2/damp_zero")
        out.append("sets/pi/noclip/o2i3")
        out.append("chain/pi/noclip/o2i3")
    return out


def build_interp(key, at_t1=False):
    cfg = sc.parse_key(key)
    d = cfg.d

    def make(dom):
        co_c = {k: np.ones(s_) for k, s_ in (("c", (d,)), ("C", (d, d)), ("e", (d,)), ("g", (d,)))}
        solver, ssm, con = sc.make_solver(cfg, co_c)
        prior_c = sc.concrete_prior(cfg)
        prior_s, pinfo = sc.sym_prior(dom, cfg, prior_c)
        st0, i0 = sc.sym_state(dom, cfg, solver, prior_s, statepfx="a")
        st1, i1 = sc.sym_state(dom, cfg, solver, prior_s, statepfx="b")
        ha = sym_array(dom, "ha", (), unit=True)
        hb = sym_array(dom, "hb", (), unit=True)
        import dataclasses
        t0 = i0["t"]
        tmid = scalar(t0[()] + ha[()])
        t1 = scalar(t0[()] + ha[()] + hb[()])
        st1 = dataclasses.replace(st1, t=t1)

        def fn(st0, st1, tmid, extras):
            if at_t1:
                sol, res = solver.interpolate_fwd_at_t1(t=tmid, interp_from=st0, interp_to=st1)
            else:
                sol, res = solver.interpolate_fwd(t=tmid, interp_from=st0, interp_to=st1)
            return sol, res.step_from, res.interp_from
        make.info = (cfg, prior_c)
        extras = {"q1": pinfo["q1"], "lam": pinfo["lam"], "i0": i0, "i1": i1, "ha": ha, "hb": hb}
        return fn, (st0, st1, tmid, extras)

    def goals(args, out, orc):
        st0, st1, tmid, ex = args
        cfg_, prior_c = make.info
        sol, step_from, interp_from = out
        A, Q = sc.prior_dense(orc, cfg, prior_c, ex)
        i0, i1 = ex["i0"], ex["i1"]
        m0, P0 = cm.dense_rv_raw(orc, cfg.ssm, i0["m"], i0["L"], d)
        m1, P1 = cm.dense_rv_raw(orc, cfg.ssm, i1["m"], i1["L"], d)
        ha = sc.sc(orc.arr(ex["ha"])); hb = sc.sc(orc.arr(ex["hb"]))
        res = {}

        def rv_of(post):
            return post if cfg.strategy == "filter" else post.marginal

        def cat(m, P):
            return np.concatenate([m, P.reshape(-1)])
        t0 = sc.sc(orc.arr(i0["t"]))
        dyn = cfg.calib.startswith("dynamic")
        if dyn:
            # (t0, t1] belongs to the right end point: reported and used scale are interp_to's
            res["reported output scale = interp_to's"] = (orc.arr(sol.output_scale), orc.arr(i1["output_scale"]))
            res["step_from keeps interp_to's scale"] = (orc.arr(step_from.output_scale), orc.arr(i1["output_scale"]))
        if at_t1:
            # the checkpoint coincides (up to eps) with the step end: report interp_to, continue from it
            res["sol.t"] = (orc.arr(sol.t), orc.arr(st1.t))
            res["sol.u = interp_to.u"] = (cat(*cm.dense_rv(orc, cfg.ssm, sol.u, d)), cat(m1, P1))
            res["step_from.marginal = interp_to marginal"] = (cat(*cm.dense_rv(orc, cfg.ssm, rv_of(step_from.solution_full), d)), cat(m1, P1))
            res["interp_from.marginal = interp_to marginal"] = (cat(*cm.dense_rv(orc, cfg.ssm, rv_of(interp_from.solution_full), d)), cat(m1, P1))
            res["step_from.t, interp_from.t"] = (np.concatenate([orc.arr(step_from.t).reshape(1), orc.arr(interp_from.t).reshape(1)]),
                                                 np.concatenate([orc.arr(st1.t).reshape(1), orc.arr(st1.t).reshape(1)]))
            if cfg.strategy != "filter":
                G1, o1, S1 = cm.dense_cond_raw(orc, cfg.ssm, *i1["bw"], d)
                Gs, os_, Ss = cm.dense_cond(orc, cfg.ssm, sol.solution_full.conditional, d)
                res["reported backward kernel = interp_to's"] = (np.concatenate([Gs.reshape(-1), os_, Ss.reshape(-1)]),
                                                                np.concatenate([G1.reshape(-1), o1, S1.reshape(-1)]))
                N = cfg.n * d
                Gi, oi, Si = cm.dense_cond(orc, cfg.ssm, step_from.solution_full.conditional, d)
                ident = np.concatenate([orc.eye(N).reshape(-1), orc.zeros((N,)), orc.zeros((N, N)).reshape(-1)])
                res["step_from restarts with the identity backward kernel"] = (np.concatenate([Gi.reshape(-1), oi, Si.reshape(-1)]), ident)
            return res
        Aa, Qa, _ = sc.transition_dense(orc, cfg, ha, A, Q)
        Ab, Qb, _ = sc.transition_dense(orc, cfg, hb, A, Q)
        if dyn:
            sg = orc.arr(i1["output_scale"])
            if sg.ndim:
                s2 = np.tile(sg, cfg.n)
                Qa = s2[:, None] * Qa * s2[None, :]; Qb = s2[:, None] * Qb * s2[None, :]
            else:
                Qa = Qa * (sg[()] * sg[()]); Qb = Qb * (sg[()] * sg[()])
        mt = Aa.dot(m0)
        Pt = orc.name(Aa.dot(P0).dot(Aa.T) + Qa, "Pt")
        res["sol.t"] = (orc.arr(sol.t), orc.arr(tmid))
        ms, Ps = cm.dense_rv(orc, cfg.ssm, sol.u, d)
        mi, Pi = cm.dense_rv(orc, cfg.ssm, rv_of(interp_from.solution_full), d)
        res["step_from.t"] = (orc.arr(step_from.t), orc.arr(st1.t))
        res["interp_from.t"] = (orc.arr(interp_from.t), orc.arr(tmid))
        res["step_from.marginal unchanged"] = (cat(*cm.dense_rv(orc, cfg.ssm, rv_of(step_from.solution_full), d)), cat(m1, P1))
        if cfg.strategy == "filter":
            res["u(t) = prediction from the preceding state"] = (cat(ms, Ps), cat(mt, Pt))
            res["interp_from.marginal"] = (cat(mi, Pi), cat(mt, Pt))
            return res
        # smoothers: the state at t is conditioned on the later state through the kernel x_t | x_t1.
        Pt1 = orc.name(Ab.dot(Pt).dot(Ab.T) + Qb, "Pt1")
        mt1 = Ab.dot(mt)
        Gb, ob, Sb = cm.dense_cond(orc, cfg.ssm, step_from.solution_full.conditional, d)
        res["kernel t1->t: G P-(t1) = P(t) A_b^T"] = (Gb.dot(Pt1), Pt.dot(Ab.T))
        res["kernel t1->t: G m-(t1) + o = m(t)"] = (Gb.dot(mt1) + ob, mt)
        res["kernel t1->t: G P-(t1) G^T + S = P(t)"] = (Gb.dot(Pt1).dot(Gb.T) + Sb, Pt)
        G0, o0, S0 = cm.dense_cond_raw(orc, cfg.ssm, *i0["bw"], d)
        Gt, ot, St = cm.dense_cond(orc, cfg.ssm, sol.solution_full.conditional, d)
        N = cfg.n * d
        if cfg.strategy == "fixedinterval":
            # reported value at t: the filtering prediction, with the kernel back to t0
            res["u(t) marginal"] = (cat(ms, Ps), cat(mt, Pt))
            res["kernel t->t0: G P(t) = P0 A_a^T"] = (Gt.dot(Pt), P0.dot(Aa.T))
            res["kernel t->t0: G m(t) + o = m0"] = (Gt.dot(mt) + ot, m0)
            res["kernel t->t0: G P(t) G^T + S = P0"] = (Gt.dot(Pt).dot(Gt.T) + St, P0)
            Gi, oi, Si = cm.dense_cond(orc, cfg.ssm, interp_from.solution_full.conditional, d)
            res["interp_from = reported state at t"] = (np.concatenate([mi, Pi.reshape(-1), Gi.reshape(-1), oi, Si.reshape(-1)]),
                                                        np.concatenate([ms, Ps.reshape(-1), Gt.reshape(-1), ot, St.reshape(-1)]))
        else:
            res["u(t) marginal"] = (cat(ms, Ps), cat(mt, Pt))
            # composite kernel (t -> last checkpoint) = previous kernel o (t -> t0)
            res["kernel t->c: K P(t) = G0 P0 A_a^T"] = (Gt.dot(Pt), G0.dot(P0).dot(Aa.T))
            res["kernel t->c: K m(t) + o = G0 m0 + o0"] = (Gt.dot(mt) + ot, G0.dot(m0) + o0)
            res["kernel t->c: K P(t) K^T + S = G0 P0 G0^T + S0"] = (Gt.dot(Pt).dot(Gt.T) + St, G0.dot(P0).dot(G0.T) + S0)
            Gi, oi, Si = cm.dense_cond(orc, cfg.ssm, interp_from.solution_full.conditional, d)
            ident = np.concatenate([orc.eye(N).reshape(-1), orc.zeros((N,)), orc.zeros((N, N)).reshape(-1)])
            res["interp_from restarts at t with the identity backward kernel"] = (
                np.concatenate([Gi.reshape(-1), oi, Si.reshape(-1)]), ident)
            res["interp_from.marginal = marginal at t"] = (cat(mi, Pi), cat(mt, Pt))
        return res
    return make, goals


def _case(case_id, tier):
    kind, key = case_id.split("/", 1)
    if kind in ("interp", "interp_at"):
        make, goals = build_interp(key, at_t1=(kind == "interp_at"))
        return PCase("C05/" + case_id, make, goals, budget_s=300 if tier == "quick" else 1200)
    raise KeyError(kind)


def run_case(case_id, tier="quick", seed=0, replay_dir=None, log=print):
    kind = case_id.split("/", 1)[0]
    if kind in ("sets", "chain", "terminal"):
        from props import C05s
        return C05s.run_case(case_id, tier=tier, seed=seed, replay_dir=replay_dir, log=log)
    return _case(case_id, tier).run(seed=seed, log=log, replay_dir=replay_dir)


def replay(path):
    import json
    with open(path) as f:
        data = json.load(f)
    cid = data["case"].split("/", 1)[1] if data["case"].startswith("C05/") else data["case"]
    if cid.split("/")[0] in ("sets", "chain", "terminal"):
        from props import C05s
        return C05s.replay(path)
    return _case(cid, "quick").replay(path)
