"""C16 -- forward-mode derivatives equal the true directional derivatives of the computed quantities (back end P).

The real function is traced under jax.jvp (JAX applies its own rules and the library's hand-written rule for qr_r); the
returned tangent is compared with the true derivative obtained by implicit symbolic differentiation of the primal output
polynomials (jxs/diff.py)."""
import numpy as np

from jxs.harness import PCase, sym_array, Orc, scalar
from jxs.poly import Poly
from jxs import poly as P
from jxs.diff import Differ
from props import common as cm
from props import solvercommon as sc

META = {
    "level": "model_checking",
    "functions": ["backend.linalg.qr_r (custom JVP)", "util.cholesky_util.* (via the kernels)", "*LatentCond.marginalise/revert",
                  "*Normal.std", "solver/solver_mle.step"],
    "bounds": {"quick": "jax.jvp of the real function along an ARBITRARY symbolic direction of ALL array inputs at an arbitrary "
                        "symbolic point: qr_r on 2x1, 2x2, 3x2 and 4x2 matrices; marginalise / revert / std / whitened residual RMS of the dense, "
                        "isotropic and block-diagonal kernels (n=2, d=1; n=1 observed); one solver step (q=1, d=1, TS0 and TS1, "
                        "uncalibrated; MLE in the thorough tier) differentiated w.r.t. the field coefficients, the state (mean and "
                        "factor), the prior noise factor, time and the step",
               "thorough": "d=2 for the isotropic / block-diagonal kernels, 3x3 triangularisations, MLE/TS1 steps"},
    "assumptions": ["A1 reals", "A2/A3 contracts; the triangular factor, inverses and square roots are differentiable "
                    "functions of the inputs where A3 holds (non-singular), their true derivatives are defined implicitly by "
                    "the differentiated defining equations", "the derivative of |x| is sign(x), x != 0", "JAX's built-in differentiation rules are trusted; what is "
                    "decided is the composition with the library's own rule and with stop_gradient placements",
                    "reverse mode is JAX's transposition of the same linearisation (not re-derived)"],
    "outside": ["code paths that contain no hand-written rule (log-densities of a given factor, losses built on them) are "
                "differentiated by JAX alone and are not re-derived", "exactly singular points (zero covariance): derivatives there are one-sided / conventions (issue #668)",
                "NaN propagation in reverse mode (floating point)", "adaptive solves (stop_gradient through dt is intentional)",
                "dynamic calibration: stop_gradient_through_calibration=True is intentional; the =False configuration is encoded "
                "but its obligation is not decided within budget and is therefore not claimed"],
}


def cases(tier):
    out = ["rule/2x1", "rule/2x2", "rule/3x2", "rule/4x2"]
    for ssm in cm.SSMS:
        out += [f"marginalise/{ssm}/d1", f"revert/{ssm}/d1", f"std/{ssm}/d1", f"rms/{ssm}/d1"]
    for ssm in cm.SSMS:
        out += [f"step/{ssm}/none/ts0"]
        # (step/{ssm}/dynamic_nostop/ts0 -- tangent of the dynamic scale with stop_gradient_through_calibration=False -- is
        #  implemented below and refutes a suppressed gradient, but its proof on the unchanged tree (degree 8-14) is not found
        #  within 10 minutes, so it is not part of either tier)
    if tier == "thorough":
        out += ["rule/3x3", "marginalise/isotropic/d2", "revert/blockdiag/d2"]
        out += [f"step/{ssm}/mle/ts1" for ssm in cm.SSMS]
    return out


def _directions(dom, args, prefix="D", only=None):
    """for every symbolic input entry (or only those whose name starts with one of `only`) a direction symbol; returns
    (tangent pytree, {var id: direction poly})"""
    import jax
    leaves, treedef = jax.tree_util.tree_flatten(args)
    dirs = {}
    tl = []
    for k, a in enumerate(leaves):
        if isinstance(a, np.ndarray) and a.dtype == object:
            t = np.empty(a.shape, dtype=object)
            for idx in (np.ndindex(*a.shape) if a.ndim else [()]):
                p = a[idx]
                if len(p.t) == 1 and list(p.t.values())[0] == 1 and len(list(p.t)[0]) == 1 and list(p.t)[0][0][1] == 1:
                    v = list(p.t)[0][0][0]
                    if only is not None and not any(P.NAMES[v].startswith(o) for o in only):
                        t[idx] = Poly()
                        continue
                    if v not in dirs:
                        dirs[v] = dom.input(prefix + P.NAMES[v])
                    t[idx] = dirs[v]
                else:
                    assert p.is_const(), "inputs of a differentiated function must be independent symbols or constants"
                    t[idx] = Poly()          # constants / structural zeros are not perturbed
            tl.append(t)
        else:
            tl.append(np.zeros(np.shape(a)))
    return jax.tree_util.tree_unflatten(treedef, tl), dirs


def _split(theta):
    import jax
    import jax.numpy as jnp
    leaves, treedef = jax.tree_util.tree_flatten(theta)
    isf = [bool(jnp.issubdtype(jnp.asarray(l).dtype, jnp.floating)) for l in leaves]

    def merge(fl):
        it = iter(fl)
        return jax.tree_util.tree_unflatten(treedef, [next(it) if k else l for k, l in zip(isf, leaves)])
    return [l for k, l in zip(isf, leaves) if k], isf, merge


def _fd(f, theta, direction, h=1e-3):
    """Richardson-extrapolated central difference of the real function (float replay oracle)"""
    import jax
    import jax.numpy as jnp
    fl, isf, merge = _split(theta)
    dl = [d for k, d in zip(isf, jax.tree_util.tree_leaves(direction)) if k]

    def at(s):
        th = merge([jnp.asarray(a, dtype=float) + s * jnp.asarray(b, dtype=float) for a, b in zip(fl, dl)])
        return [np.asarray(x, dtype=float) for x in jax.tree_util.tree_leaves(f(th))]
    p1, m1, p2, m2 = at(h), at(-h), at(h / 2), at(-h / 2)
    return [(4 * (a2 - b2) / h - (a1 - b1) / (2 * h)) / 3 for a1, b1, a2, b2 in zip(p1, m1, p2, m2)]


def make_case(name, build_theta, f, labels, only=None):
    """generic: theta = build_theta(dom) (pytree of symbolic arrays), f(theta) -> tuple of arrays"""
    state = {}

    def make(dom):
        import jax
        dom.want_q = True
        dom.symbolic_sign_preds = True
        theta = build_theta(dom)
        direction, dirs = _directions(dom, theta, only=only)
        state["dirs"] = dirs

        def fn(theta, direction):
            fl, isf, merge = _split(theta)
            dl = [d for k, d in zip(isf, jax.tree_util.tree_leaves(direction)) if k]
            y, ydot = jax.jvp(lambda x: tuple(f(merge(x))), (fl,), (dl,))
            return tuple(y), tuple(ydot)
        return fn, (theta, direction)

    def goals(args, out, orc):
        theta, direction = args
        y, ydot = out
        res = {}
        if orc.sym:
            df = Differ(orc.dom, state["dirs"])
            df.differentiate_hypotheses()
            for lab, yy, yd in zip(labels, y, ydot):
                yy = orc.arr(yy)
                want = np.empty(yy.shape, dtype=object)
                for idx in (np.ndindex(*yy.shape) if yy.ndim else [()]):
                    want[idx] = df.D(yy[idx])
                res[f"jvp tangent of {lab} = true directional derivative"] = (orc.arr(yd), want)
        else:
            fd = _fd(f, theta, direction)
            for lab, yd, w in zip(labels, ydot, fd):
                res[f"jvp tangent of {lab} = true directional derivative"] = (np.asarray(yd, dtype=float), w)
        return res
    return make, goals


def build(case_id):
    parts = case_id.split("/")
    kind = parts[0]
    if kind == "rule":
        m, n = map(int, parts[1].split("x"))

        def theta(dom):
            return {"M": sym_array(dom, "M", (m, n))}

        def f(th):
            from probdiffeq.backend import linalg
            R = linalg.qr_r(th["M"])
            return R, R.T @ R
        return make_case(case_id, theta, f, ["the triangular factor R", "R^T R"])
    ssm = parts[1]
    if kind in ("marginalise", "revert", "logpdf", "std", "rms"):
        d = int(parts[2][1:])
        n = 2
        cfg = sc.Cfg(ssm=ssm, q=n - 1, d=d)
        Cond, Normal = cm.impl(ssm)
        prior_c = sc.concrete_prior(cfg)
        tf = prior_c.init.tree_flatten
        cfg1 = sc.Cfg(ssm=ssm, q=0, d=d)
        tf1 = sc.concrete_prior(cfg1).init.tree_flatten

        def theta(dom):
            th = {"rv": cm.sym_rv(dom, ssm, n, d, "r")}
            if kind in ("marginalise", "revert"):
                th["cond"] = cm.sym_cond(dom, ssm, n, 1, d, "k", scal="one")
            if kind in ("logpdf", "rms"):
                th["u"] = sym_array(dom, "u", cm.rv_shapes(ssm, n, d)[0])
            return th

        def f(th):
            import jax.numpy as jnp
            rv = Normal(*th["rv"], tf)
            if kind == "std":
                return (jnp.stack([jnp.ravel(s) for s in rv.std]),)
            if kind == "logpdf":
                return (rv.logpdf_flat(th["u"]),)
            if kind == "rms":
                r = rv.residual_whitened_rms_flat(th["u"])
                return (jnp.ravel(r) ** 2,)
            A, b, Q, tl, to = th["cond"]
            cond = Cond(A, Normal(b, Q, tf1), to_latent=tl, to_observed=to)
            if kind == "marginalise":
                o = cond.marginalise(rv)
                L = o.cholesky_flat
                return o.mean_flat, _gram(ssm, L)
            from probdiffeq.backend import linalg
            obs, back = cond.revert(rv, solve_triu=linalg.solve_triu)
            return (obs.mean_flat, _gram(ssm, obs.cholesky_flat), back.A, back.noise.mean_flat,
                    _gram(ssm, back.noise.cholesky_flat))
        labels = {"std": ["the standard deviations"], "logpdf": ["the log-density"],
                  "rms": ["the squared whitened residual RMS (MLE / dynamic scale estimate)"],
                  "marginalise": ["the marginal mean", "the marginal covariance"],
                  "revert": ["the observed mean", "the observed covariance", "the gain", "the posterior offset",
                             "the posterior covariance"]}[kind]
        return make_case(case_id, theta, f, labels)
    if kind == "step":
        calib, lin = parts[2], parts[3]
        d = 1
        cfg = sc.Cfg(ssm=ssm, q=1, d=d, order=1, lin=lin, calib=("dynamic" if calib == "dynamic_nostop" else calib),
                     strategy="filter", damp="zero")

        def theta(dom):
            co_c = {k: np.ones(s_) for k, s_ in (("c", (d,)), ("C", (d, d)), ("e", (d,)), ("g", (d,)))}
            solver_t, _, _ = sc.make_solver(cfg, co_c)
            prior_c = sc.concrete_prior(cfg)
            if calib == "dynamic_nostop":
                prior_s = prior_c       # concrete prior: keeps the degree of the scale obligation within reach
            else:
                prior_s, pinfo = sc.sym_prior(dom, cfg, prior_c, base_scale=(np.ones(()) if ssm == "isotropic" else np.ones((d,))))
            st, sinfo = sc.sym_state(dom, cfg, solver_t, prior_s)
            h = sym_array(dom, "h", (), unit=True)
            deg = 2 if (lin == "ts0" and calib != "dynamic_nostop") else 1
            co = sc.field_coeffs(dom, d, 1, degree=deg)     # independent symbols only
            return {"state": st, "h": h, "co": co}

        def f(th):
            solver, _, con = sc.make_solver(cfg, th["co"])
            if calib == "dynamic_nostop":
                from probdiffeq import probdiffeq
                solver = probdiffeq.solver_dynamic(strategy=probdiffeq.strategy_filter(), constraint=con,
                                                   stop_gradient_through_calibration=False)
                o = solver.step(th["state"], dt=th["h"], damp=0.0)
                import jax.numpy as jnp
                return (jnp.ravel(o.output_scale) ** 2,)
            o = solver.step(th["state"], dt=th["h"], damp=0.0)
            outs = [o.u.mean_flat, _gram(ssm, o.u.cholesky_flat)]
            return tuple(outs)
        labels = ["the posterior mean", "the posterior covariance"]
        if calib == "dynamic_nostop":
            labels = ["the dynamic output scale (squared), stop_gradient_through_calibration=False"]
            # direction restricted to the vector-field coefficients (ODE parameters): keeps the obligation within reach
            return make_case(case_id, theta, f, labels, only=("c0", "cC", "ct"))
        return make_case(case_id, theta, f, labels)
    raise KeyError(case_id)


def _gram(ssm, L):
    import jax.numpy as jnp
    if ssm == "blockdiag":
        return jnp.einsum("dij,dkj->dik", L, L)
    return L @ L.T


def _case(case_id, tier):
    make, goals = build(case_id)
    return PCase("C16/" + case_id, make, goals, budget_s=200 if tier == "quick" else 1200, exact_timeout_ms=4000,
                 dce=("dynamic_nostop" in case_id))


def run_case(case_id, tier="quick", seed=0, replay_dir=None, log=print):
    return _case(case_id, tier).run(seed=seed, log=log, replay_dir=replay_dir)


def replay(path):
    import json
    with open(path) as f:
        data = json.load(f)
    return _case(data["case"].split("/", 1)[1], "quick").replay(path)
