"""C08 -- Gaussian conditional algebra is exact in every factorisation (back end P)."""
import numpy as np

from jxs.harness import PCase, sym_array, Orc, scalar
from jxs.poly import Poly
from props import common as cm

META = {
    "level": "model_checking",
    "functions": [
        "{Dense,Isotropic,BlockDiag}LatentCond.apply_flat/marginalise/revert/merge/preconditioner_apply",
        "AbstractLatentCond.rescale_noise", "cholesky_util.revert_conditional", "cholesky_util.sum_of_sqrtm_factors",
        "cholesky_util.triu_via_qr", "backend.linalg.qr_r/solve_triu/solve_tril",
        "{Dense,Isotropic,BlockDiag}Normal.std/residual_whitened_rms_flat/rescale_cholesky/"
        "to_multivariate_normal/identity_conditional/logpdf_flat/to_derivative",
    ],
    "bounds": {"quick": "n<=2 coefficients, k<=2 observed rows, d<=2; all operands symbolic reals, scalings >0",
               "thorough": "n<=3, k<=3, d<=2"},
    "assumptions": [
        "A1 real arithmetic (no rounding)", "A2 QR contract: R upper triangular, R^T R = M^T M",
        "A3 triangular solves defined (non-zero pivots)", "scalings to_latent/to_observed strictly positive "
        "(as the property states)", "Cholesky factors lower triangular but otherwise arbitrary (any sign, any "
        "magnitude); rank-deficient factors only as stated per case",
    ],
    "outside": ["floating-point rounding, ill-conditioning", "shapes above the bound", "batched (vmapped) variants"],
}

OPS_COND = ("apply_flat", "marginalise", "revert", "merge", "preconditioner_apply", "rescale_noise")
OPS_RV = ("std", "rms", "rescale_cholesky", "to_mvn", "identity_conditional", "logpdf")


def cases(tier):
    out = []
    sizes = {"dense": [(2, 1, 1), (2, 2, 1)], "isotropic": [(2, 1, 2)], "blockdiag": [(2, 1, 2)]}
    if tier == "thorough":
        sizes = {"dense": [(2, 1, 1), (2, 2, 1), (3, 2, 1), (3, 3, 1), (2, 1, 2)],
                 "isotropic": [(2, 1, 2), (3, 2, 2), (3, 1, 1)], "blockdiag": [(2, 1, 2), (3, 2, 2), (3, 1, 1)]}
    for ssm in cm.SSMS:
        for (n, k, d) in sizes[ssm]:
            for op in OPS_COND:
                out.append(f"{ssm}/{op}/n{n}k{k}d{d}")
        for (n, k, d) in sizes[ssm][:1] + ([sizes[ssm][-1]] if tier == "thorough" else []):
            for op in OPS_RV:
                if ssm == "dense" and d == 2 and op in ("logpdf", "rms"):
                    continue        # generic 4x4 factor: not decided within the thorough budget
                out.append(f"{ssm}/{op}/n{n}k{k}d{d}")
        # rank-deficient factors: first coefficient exact (zero rows in the factor => zero columns in the stacked matrix)
        nn, kk, dd = sizes[ssm][0]
        out.append(f"{ssm}/marginalise_sing/n{nn}k{nn}d{dd}")
        out.append(f"{ssm}/revert_sing/n{nn}k{kk}d{dd}")
        out.append(f"{ssm}/to_derivative0/n2k1d2")
        out.append(f"{ssm}/to_derivative1/n2k1d2")
    return sorted(set(out))


def parse(case_id):
    ssm, op, sz = case_id.split("/")
    import re
    n, k, d = map(int, re.match(r"n(\d+)k(\d+)d(\d+)", sz).groups())
    return ssm, op, n, k, d


def build(case_id):
    ssm, op, n, k, d = parse(case_id)
    Cond, Normal = cm.impl(ssm)
    from probdiffeq.backend import linalg
    singular = op.endswith("_sing")       # first Taylor coefficient known exactly, the others uncertain and correlated
    if singular:
        op = op[:-len("_sing")]
    _sym_rv = cm.sym_rv

    def sym_rv_maybe_singular(dom, ssm_, n_, d_, pfx, **kw):
        m, L = _sym_rv(dom, ssm_, n_, d_, pfx, **kw)
        if singular:
            if ssm_ == "dense":
                L[:d_, :] = Poly()
            elif ssm_ == "isotropic":
                L[0, :] = Poly()
            else:
                L[:, 0, :] = Poly()
        return m, L

    def mkc(A, b, Q, tl, to):
        return Cond(A, Normal(b, Q, None), to_latent=tl, to_observed=to)

    if op == "apply_flat":
        def make(dom):
            c = cm.sym_cond(dom, ssm, n, k, d, "c")
            x = sym_array(dom, "x", cm.rv_shapes(ssm, n, d)[0])
            return (lambda c, x: mkc(*c).apply_flat(x)), (c, x)

        def goals(args, out, orc):
            c, x = args
            Ae, be, Qc = cm.dense_cond_raw(orc, ssm, *c, d)
            xd = cm.embed_vec(orc, ssm, x, d)
            m, P = cm.dense_rv(orc, ssm, out, d)
            return {"mean": (m, Ae.dot(xd) + be), "cov": (P, Qc)}
    elif op == "marginalise":
        def make(dom):
            c = cm.sym_cond(dom, ssm, n, k, d, "c")
            rv = sym_rv_maybe_singular(dom, ssm, n, d, "r")
            return (lambda c, rv: mkc(*c).marginalise(Normal(*rv, None))), (c, rv)

        def goals(args, out, orc):
            c, rv = args
            Ae, be, Qc = cm.dense_cond_raw(orc, ssm, *c, d)
            m0, P0 = cm.dense_rv_raw(orc, ssm, *rv, d)
            m, P = cm.dense_rv(orc, ssm, out, d)
            return {"mean": (m, Ae.dot(m0) + be), "cov": (P, Ae.dot(P0).dot(Ae.T) + Qc)}
    elif op == "revert":
        def make(dom):
            c = cm.sym_cond(dom, ssm, n, k, d, "c")
            rv = sym_rv_maybe_singular(dom, ssm, n, d, "r")

            def fn(c, rv):
                obs, bw = mkc(*c).revert(Normal(*rv, None), solve_triu=linalg.solve_triu)
                return obs, bw
            return fn, (c, rv)

        def goals(args, out, orc):
            c, rv = args
            obs, bw = out
            Ae, be, Qc = cm.dense_cond_raw(orc, ssm, *c, d)
            m0, P0 = cm.dense_rv_raw(orc, ssm, *rv, d)
            my, Py = cm.dense_rv(orc, ssm, obs, d)
            G, o, Sg = cm.dense_cond(orc, ssm, bw, d)
            # joint law of (x, y): no inverse needed on the oracle side
            return {"E[y]": (my, Ae.dot(m0) + be),
                    "Cov[y]": (Py, Ae.dot(P0).dot(Ae.T) + Qc),
                    "Cov[x,y]": (G.dot(Py), P0.dot(Ae.T)),
                    "E[x]": (G.dot(my) + o, m0),
                    "Cov[x]": (G.dot(Py).dot(G.T) + Sg, P0)}
    elif op == "merge":
        def make(dom):
            c1 = cm.sym_cond(dom, ssm, k, k, d, "o")     # outer: y(k) -> z(k)
            c2 = cm.sym_cond(dom, ssm, n, k, d, "i")     # inner: x(n) -> y(k)
            return (lambda c1, c2: mkc(*c1).merge(mkc(*c2))), (c1, c2)

        def goals(args, out, orc):
            c1, c2 = args
            A1, b1, Q1 = cm.dense_cond_raw(orc, ssm, *c1, d)
            A2, b2, Q2 = cm.dense_cond_raw(orc, ssm, *c2, d)
            A, b, Q = cm.dense_cond(orc, ssm, out, d)
            return {"A": (A, A1.dot(A2)), "offset": (b, A1.dot(b2) + b1),
                    "cov": (Q, A1.dot(Q2).dot(A1.T) + Q1)}
    elif op == "preconditioner_apply":
        def make(dom):
            c = cm.sym_cond(dom, ssm, n, k, d, "c")
            return (lambda c: mkc(*c).preconditioner_apply()), (c,)

        def goals(args, out, orc):
            (c,) = args
            A0, b0, Q0 = cm.dense_cond_raw(orc, ssm, *c, d)
            A, b, Q = cm.dense_cond(orc, ssm, out, d)
            one_l = orc.arr(np.ones(np.shape(out.to_latent)))
            one_o = orc.arr(np.ones(np.shape(out.to_observed)))
            # with unit scalings the raw fields must be the effective ones
            Ar = cm.embed_mat(orc, ssm, out.A, d)
            return {"A": (A, A0), "offset": (b, b0), "cov": (Q, Q0), "A_raw": (Ar, A0),
                    "to_latent": (orc.arr(out.to_latent), one_l), "to_observed": (orc.arr(out.to_observed), one_o)}
    elif op == "rescale_noise":
        def make(dom):
            c = cm.sym_cond(dom, ssm, n, k, d, "c")
            f = sym_array(dom, "f", (d,) if ssm == "blockdiag" else ())
            return (lambda c, f: mkc(*c).rescale_noise(f)), (c, f)

        def goals(args, out, orc):
            c, f = args
            A0, b0, Q0 = cm.dense_cond_raw(orc, ssm, *c, d)
            A, b, Q = cm.dense_cond(orc, ssm, out, d)
            f = orc.arr(f)
            fd = np.tile(f, k) if ssm == "blockdiag" else np.repeat(f.reshape(1), k * d)
            return {"A": (A, A0), "offset": (b, b0), "cov": (Q, fd[:, None] * Q0 * fd[None, :])}
    elif op in OPS_RV or op.startswith("to_derivative"):
        return build_rv(case_id, ssm, op, n, d, Normal)
    else:
        raise KeyError(op)
    return make, goals, {}


def _tf(ssm, n, d):
    """a real tree_flatten object for a list of n Taylor coefficients of dimension d"""
    import jax.numpy as jnp
    _, Normal = cm.impl(ssm)
    mean = [jnp.zeros((d,)) for _ in range(n)]
    std = [jnp.zeros(()) for _ in range(n)] if ssm == "isotropic" else mean
    return Normal.from_mean_and_std(mean, std).tree_flatten


def build_rv(case_id, ssm, op, n, d, Normal):
    import jax.numpy as jnp
    tf = _tf(ssm, n, d)
    N = n * d

    if op == "std":
        def make(dom):
            rv = cm.sym_rv(dom, ssm, n, d, "r")
            return (lambda rv: jnp.stack(Normal(*rv, tf).std)), (rv,)

        def goals(args, out, orc):
            (rv,) = args
            m, P = cm.dense_rv_raw(orc, ssm, *rv, d)
            s = orc.arr(out)                       # (n, d) or (n,) for isotropic
            diag = np.array([P[i, i] for i in range(N)], dtype=object if orc.sym else float)
            if ssm == "isotropic":
                want = diag.reshape(n, d)[:, 0]
            else:
                want = diag.reshape(n, d)
            res = {"std^2": (s * s, want)}
            if not orc.sym:
                res["std>=0"] = (np.minimum(s, 0.0), np.zeros(s.shape))
            return res
        return make, goals, {"post": "std_nonneg"}
    if op == "rms":
        def make(dom):
            rv = cm.sym_rv(dom, ssm, n, d, "r")
            u = sym_array(dom, "u", cm.rv_shapes(ssm, n, d)[0])
            return (lambda rv, u: Normal(*rv, tf).residual_whitened_rms_flat(u)), (rv, u)

        def goals(args, out, orc):
            rv, u = args
            m, P = cm.dense_rv_raw(orc, ssm, *rv, d)
            ud = cm.embed_vec(orc, ssm, u, d)
            dx = ud - m
            r = orc.arr(out)
            if ssm == "blockdiag":
                # per-dimension rms: (d,)
                lhs, rhs = [], []
                for a in range(d):
                    idx = [i * d + a for i in range(n)]
                    Pa = P[np.ix_(idx, idx)]
                    W = orc.inv(Pa, "Pinv")
                    dxa = dx[idx]
                    lhs.append(r[a] * r[a] * n)
                    rhs.append(dxa.dot(W).dot(dxa))
                return {"n*rms^2=maha": (np.array(lhs, dtype=object if orc.sym else float),
                                          np.array(rhs, dtype=object if orc.sym else float))}
            W = orc.inv(P, "Pinv")
            return {"N*rms^2=maha": (r * r * N, dx.dot(W).dot(dx))}
        return make, goals, {}
    if op == "rescale_cholesky":
        def make(dom):
            rv = cm.sym_rv(dom, ssm, n, d, "r")
            f = sym_array(dom, "f", (d,) if ssm == "blockdiag" else ())
            return (lambda rv, f: Normal(*rv, tf).rescale_cholesky(f)), (rv, f)

        def goals(args, out, orc):
            rv, f = args
            m0, P0 = cm.dense_rv_raw(orc, ssm, *rv, d)
            m, P = cm.dense_rv(orc, ssm, out, d)
            f = orc.arr(f)
            fd = np.tile(f, n) if ssm == "blockdiag" else np.repeat(f.reshape(1), N)
            return {"mean": (m, m0), "cov": (P, fd[:, None] * P0 * fd[None, :])}
        return make, goals, {}
    if op == "to_mvn":
        def make(dom):
            rv = cm.sym_rv(dom, ssm, n, d, "r")
            return (lambda rv: Normal(*rv, tf).to_multivariate_normal()), (rv,)

        def goals(args, out, orc):
            (rv,) = args
            m0, P0 = cm.dense_rv_raw(orc, ssm, *rv, d)
            m, P = out
            return {"mean": (orc.arr(m), m0), "cov": (orc.arr(P), P0)}
        return make, goals, {}
    if op == "identity_conditional":
        def make(dom):
            rv = cm.sym_rv(dom, ssm, n, d, "r")
            x = sym_array(dom, "x", cm.rv_shapes(ssm, n, d)[0])
            return (lambda rv, x: Normal(*rv, tf).identity_conditional().apply_flat(x)), (rv, x)

        def goals(args, out, orc):
            rv, x = args
            m, P = cm.dense_rv(orc, ssm, out, d)
            return {"mean": (m, cm.embed_vec(orc, ssm, x, d)), "cov": (P, orc.zeros((N, N)))}
        return make, goals, {}
    if op == "logpdf":
        return build_logpdf(ssm, n, d, Normal, tf)
    if op.startswith("to_derivative"):
        i = int(op[len("to_derivative"):])

        def make(dom):
            rv = cm.sym_rv(dom, ssm, n, d, "r")
            x = sym_array(dom, "x", cm.rv_shapes(ssm, n, d)[0])
            std = sym_array(dom, "sd", () if ssm == "isotropic" else (d,), positive=True)
            return (lambda rv, x, std: Normal(*rv, tf).to_derivative(i, std).apply_flat(x)), (rv, x, std)

        def goals(args, out, orc):
            rv, x, std = args
            m, P = cm.dense_rv(orc, ssm, out, d)
            xd = cm.embed_vec(orc, ssm, x, d)
            sd = orc.arr(std)
            want = orc.zeros((d, d))
            for a in range(d):
                s_ = sd[()] if ssm == "isotropic" else sd[a]
                want[a, a] = s_ * s_
            return {"observation of Taylor coefficient i: mean": (m, xd[i * d:(i + 1) * d]),
                    "observation noise: cov = diag(std^2)": (P, want)}
        return make, goals, {}
    raise KeyError(op)


def build_logpdf(ssm, n, d, Normal, tf):
    import math
    N = n * d
    LOG2PI = math.log(2 * math.pi)

    def make(dom):
        rv = cm.sym_rv(dom, ssm, n, d, "r", chol="full")
        u = sym_array(dom, "u", cm.rv_shapes(ssm, n, d)[0])
        return (lambda rv, u: Normal(*rv, tf).logpdf_flat(u)), (rv, u)

    def goals(args, out, orc):
        rv, u = args
        m, P = cm.dense_rv_raw(orc, ssm, *rv, d)
        ud = cm.embed_vec(orc, ssm, u, d)
        dx = ud - m
        W = orc.inv(P, "Pinv")
        maha = dx.dot(W).dot(dx)
        if not orc.sym:
            sign, logdet = np.linalg.slogdet(P)
            full = (np.asarray(out), -0.5 * maha - 0.5 * N * LOG2PI - 0.5 * logdet)
            return {"quadratic+const": full, "prod(log args)^2=det": full}
        # log is uninterpreted: split into  (i) everything but the log atoms, (ii) the product of
        # the log arguments (axiom: sum log|a_i| = log prod |a_i|, log sqrt x = (1/2) log x)
        dom = orc.dom
        val = out[()] if isinstance(out, np.ndarray) else out
        from jxs import poly as P_
        logs = {v: desc[1] for v, desc in dom.atoms.items() if desc[0] == "log"}
        rest = {}
        coefs = {}
        for mono, c in val.t.items():
            lv = [(v, e) for v, e in mono if v in logs]
            if not lv:
                rest[mono] = c
            else:
                assert len(mono) == 1 and lv[0][1] == 1, "log atom enters non-linearly"
                coefs[lv[0][0]] = c
        rest = Poly(rest)
        from fractions import Fraction
        const = Poly.const(Fraction(LOG2PI) * Fraction(-N, 2))
        # every log atom must enter with the same coefficient -w (w=1 dense; w=1 per dimension otherwise)
        ws = set(coefs.values())
        assert len(ws) == 1, f"log atoms with different weights {ws}"
        w = -next(iter(ws))
        prod = Poly.const(1)
        for v in coefs:
            a = logs[v]
            prod = prod * a * a
        # prod = prod |a_i|^2 ; claim: w * sum log|a_i| = (1/2) log det P  <=>  (prod a_i^2)^w = det P
        detP = _det(P)
        k = int(w)
        assert k == w and k >= 1
        return {"quadratic+const": (scalar(rest), scalar(-0.5 * maha + const)),
                "prod(log args)^2=det": (scalar(prod ** k), scalar(detP))}
    return make, goals, {}


def _det(M):
    n = M.shape[0]
    if n == 1:
        return M[0, 0]
    tot = Poly()
    for j in range(n):
        minor = np.delete(np.delete(M, 0, axis=0), j, axis=1)
        tot = tot + M[0, j] * _det(minor) * (-1) ** j
    return tot


def _case(case_id, tier):
    make, goals, opts = build(case_id)
    return PCase("C08/" + case_id, make, goals, budget_s=240 if tier == "quick" else 900)


def run_case(case_id, tier="quick", seed=0, replay_dir=None, log=print):
    return _case(case_id, tier).run(seed=seed, log=log, replay_dir=replay_dir)


def replay(path):
    import json
    with open(path) as f:
        data = json.load(f)
    case_id = data["case"].split("/", 1)[1]
    case = _case(case_id, "quick")
    return case.replay(path)
