"""C07 -- the acceptance quantity equals the documented local error estimate (back end P)."""
import dataclasses
import math
from fractions import Fraction

import numpy as np

from jxs.harness import PCase, sym_array, Orc, scalar
from jxs.poly import Poly
from jxs import poly as P
from props import common as cm
from props import solvercommon as sc

META = {
    "level": "model_checking",
    "functions": ["error_residual_std.estimate_error_norm", "error_state_std.estimate_error_norm",
                  "error_norm_scale_then_rms", "error_norm_rms_then_scale", "*WienerIntegrated.transition",
                  "*LatentCond.apply_flat/marginalise/revert", "AbstractLatentCond.bayes_rule_and_residual_whitened_rms_tree",
                  "*Normal.residual_whitened_rms_tree/rescale_cholesky/std", "*OdeTs0.linearize/*Residual.linearize (re-linearised mode)"],
    "bounds": {"quick": "previous and proposed states ARBITRARY (symbolic previous mean, proposed mean, proposed time, cached "
                        "linearisation with symbolic matrix/offset/noise factor), symbolic dt, atol, rtol, prior noise factor and "
                        "base scale; q=1 (q=2 for the second-order case), d=1 and d=2; both estimators, both norms, cached and "
                        "re-linearised, per-unit-step on/off, derivative index 0/1, three factorisations; sign cases of "
                        "max(|u_prev|,|u_new|) as case assumptions",
               "thorough": "all sign cases, q=2 throughout"},
    "assumptions": ["A1 reals", "A2/A3 contracts", "the outer power x**(-1/(q+1)) is an uninterpreted function applied to the "
                    "norm: the obligation is equality of its (squared) argument and of the exponent",
                    "case assumption on the signs of u_prev, u_new and on which of |u_prev|,|u_new| is larger (stated per case)"],
    "outside": ["floating point", "matrix-free estimators"],
}

CASES_Q = [
    # estimator, norm, relin, per_unit, idx, ssm, lin, order, q, d, signcase
    ("res", "scale_rms", "cached", 0, 0, "dense", "ts0", 1, 1, 1, "pp>"),
    ("res", "scale_rms", "cached", 0, 0, "isotropic", "ts0", 1, 1, 2, "pp<"),
    ("res", "scale_rms", "cached", 0, 0, "blockdiag", "ts0", 1, 1, 2, "pn>"),
    ("res", "scale_rms", "relin", 0, 0, "dense", "ts1", 1, 1, 1, "pp<"),
    ("res", "scale_rms", "relin", 1, 0, "isotropic", "ts1", 1, 1, 1, "pp<"),
    ("res", "scale_rms", "relin", 0, 0, "blockdiag", "ts1", 1, 1, 1, "np<"),
    ("res", "rms_scale", "cached", 1, 0, "dense", "ts0", 1, 1, 2, "pp<"),
    ("res", "rms_scale", "cached", 0, 0, "blockdiag", "ts0", 1, 1, 2, "pp<"),
    ("res", "rms_scale", "cached", 0, 0, "isotropic", "ts0", 1, 1, 2, "pp<"),
    ("state", "rms_scale", "cached", 0, 0, "isotropic", "ts0", 1, 1, 2, "pp<"),
    ("res", "scale_rms", "cached", 0, 0, "dense", "ts0", 2, 2, 1, "pp<"),
    ("res", "scale_rms", "relin", 1, 0, "dense", "ts0", 2, 2, 1, "pp>"),
    ("state", "scale_rms", "cached", 0, 0, "dense", "ts0", 1, 1, 1, "pp<"),
    ("state", "scale_rms", "cached", 1, 1, "dense", "ts0", 1, 1, 1, "pp<"),
    ("state", "scale_rms", "relin", 1, 1, "isotropic", "ts1", 1, 1, 1, "pp>"),
    ("state", "rms_scale", "cached", 0, 1, "blockdiag", "ts0", 1, 1, 1, "pn<"),
    ("state", "scale_rms", "cached", 1, 0, "isotropic", "ts0", 1, 1, 2, "pp<"),
]


def cases(tier):
    out = ["/".join(map(str, c)) for c in CASES_Q]
    if tier == "thorough":
        out.append("res/scale_rms/cached/0/0/dense/ts0/1/1/2/pp>")      # dense d=2, per-dimension scales: minutes
        for c in CASES_Q[:6]:
            for sgn in ("pp>", "pn>", "np<", "nn<"):
                out.append("/".join(map(str, c[:-1] + (sgn,))))
    return sorted(set(out))


def build(case_id):
    est, norm, relin, per_unit, idx, ssm, lin, order, q, d, signcase = case_id.split("/")
    per_unit, idx, order, q, d = int(per_unit), int(idx), int(order), int(q), int(d)
    cfg = sc.Cfg(ssm=ssm, q=q, d=d, order=order, lin=lin, calib="none", strategy="filter", damp="sym")
    n = cfg.n
    s_prev = 1 if signcase[0] == "p" else -1
    s_new = 1 if signcase[1] == "p" else -1
    prev_larger = signcase[2] == ">"

    def make(dom):
        from probdiffeq import probdiffeq
        from probdiffeq._probdiffeq.solvers import ProbabilisticSolution
        co_c = {k: np.ones(s_) for k, s_ in (("c", (d,)), ("C", (d, d)), ("e", (d,)), ("g", (d,)), ("D", (d, d)))
                if k != "D" or order == 2}
        solver_t, ssm_o, con_t = sc.make_solver(cfg, co_c)
        prior_c = sc.concrete_prior(cfg)
        prior_s, pinfo = sc.sym_prior(dom, cfg, prior_c)
        Cond, Normal = cm.impl(ssm)
        st0 = solver_t.init(t=0.0, u=prior_c, damp=0.0)
        tf = st0.u.tree_flatten
        # previous / proposed means: the coefficient compared in the reference gets the sign of the case
        ms, cs = cm.rv_shapes(ssm, n, d)

        def mean(pfx, sign):
            w = sym_array(dom, pfx, ms, positive=True)
            m = w.copy()
            for a in range(d):
                ix = (idx * d + a,) if ssm == "dense" else ((idx, a) if ssm == "isotropic" else (a, idx))
                m[ix] = w[ix] * sign
            return m, w
        m_prev, w_prev = mean("mp", s_prev)
        m_new, w_new = mean("mn", s_new)
        pairs_ = []
        for a in range(d):
            ix = (idx * d + a,) if ssm == "dense" else ((idx, a) if ssm == "isotropic" else (a, idx))
            dom.assume_sign(w_prev[ix] - w_new[ix], 1 if prev_larger else -1)
            pairs_.append((P.NAMES[list(w_prev[ix].vars())[0]], P.NAMES[list(w_new[ix].vars())[0]]))

        def hook(env):      # pinned inputs must satisfy the case assumption |u_prev| > |u_new| (or <)
            for a_, b_ in pairs_:
                if env[a_] == env[b_]:
                    env[a_] = env[a_] + 1
                if (env[a_] > env[b_]) != prev_larger:
                    env[a_], env[b_] = env[b_], env[a_]
        dom.env_hook = hook
        Lz = np.zeros(cs)
        t_prev = sym_array(dom, "tp", ())
        t_new = sym_array(dom, "tn", ())
        h = sym_array(dom, "h", (), unit=True)
        atol = sym_array(dom, "atol", (), unit=True)
        rtol = sym_array(dom, "rtol", (), unit=True)
        damp = sym_array(dom, "damp", ())
        # cached linearisation: an arbitrary conditional of the right structure
        As, bs, Qs, tls, tos = cm.cond_shapes(ssm, n, 1, d)
        cA = sym_array(dom, "cA", As); cb = sym_array(dom, "cb", bs); cQ = sym_array(dom, "cQ", Qs, "lower")
        fe0 = st0.fun_evals
        cached = Cond(cA, Normal(cb, cQ, fe0.noise.tree_flatten), to_latent=np.ones(tls), to_observed=np.ones(tos))
        prev = ProbabilisticSolution(t=t_prev, u=Normal(m_prev, Lz, tf), solution_full=Normal(m_prev, Lz, tf),
                                     output_scale=st0.output_scale, num_steps=st0.num_steps, auxiliary=st0.auxiliary,
                                     fun_evals=st0.fun_evals, prior=prior_s)
        prop = dataclasses.replace(prev, t=t_new, u=Normal(m_new, Lz, tf), solution_full=Normal(m_new, Lz, tf), fun_evals=cached)
        # field normalised at the point where the re-linearised estimator must evaluate it
        orc0 = Orc(dom)
        A0, Q0 = sc.prior_dense(orc0, cfg, prior_c, pinfo)
        Ah0, _, _ = sc.transition_dense(orc0, cfg, h[()], A0, Q0)
        mp0 = Ah0.dot(cm.embed_vec(orc0, ssm, m_prev, d))
        ustar = sc.selector(orc0, cfg, 0).dot(mp0)
        dustar = sc.selector(orc0, cfg, 1).dot(mp0) if order == 2 else None
        co = sc.field_coeffs_at(dom, d, order, ustar, dustar, t_new[()])

        def fn(prev, prop, h, atol, rtol, damp, co, extras):
            _, ssm_obj, con = sc.make_solver(cfg, co)
            nrm = probdiffeq.error_norm_scale_then_rms() if norm == "scale_rms" else probdiffeq.error_norm_rms_then_scale()
            kw = dict(constraint=con, error_norm=nrm, re_linearize_before_error=(relin == "relin"),
                      error_per_unit_step=bool(per_unit))
            if est == "res":
                e = probdiffeq.error_residual_std(**kw)
            else:
                e = probdiffeq.error_state_std(derivative_idx=idx, **kw)
            power, _ = e.estimate_error_norm(e.init_error(), prev, prop, dt=h, atol=atol, rtol=rtol, damp=damp)
            return power
        make.info = (cfg, prior_c)
        extras = {"q1": pinfo["q1"], "lam": pinfo["lam"], "m_prev": m_prev, "m_new": m_new, "cached": (cA, cb, cQ),
                  "t_new": t_new}
        return fn, (prev, prop, h, atol, rtol, damp, co, extras)

    def goals(args, out, orc):
        prev, prop, h, atol, rtol, damp, co, ex = args
        cfg_, prior_c = make.info
        A, Q = sc.prior_dense(orc, cfg, prior_c, ex)
        hh = sc.sc(orc.arr(h)); at = sc.sc(orc.arr(atol)); rt = sc.sc(orc.arr(rtol)); dd = sc.sc(orc.arr(damp))
        Ah, Qh, _ = sc.transition_dense(orc, cfg, hh, A, Q)
        mp = cm.embed_vec(orc, ssm, ex["m_prev"], d)
        mn = cm.embed_vec(orc, ssm, ex["m_new"], d)
        mpred = Ah.dot(mp)
        if relin == "cached":
            cA, cb, cQ = ex["cached"]
            H = cm.embed_mat(orc, ssm, cA, d)
            b = cm.embed_vec(orc, ssm, cb, d)
            Nf = cm.embed_mat(orc, ssm, cQ, d)
            R = Nf.dot(Nf.T)
            z = H.dot(mpred) + b
        else:
            H, z = sc.linearise_oracle(orc, cfg, co, mpred, sc.sc(orc.arr(ex["t_new"])))
            R = orc.eye(d) * (dd * dd)
        S0 = orc.name(H.dot(Qh).dot(H.T) + R, "S0")
        dfrac = Poly.const(Fraction(1, d)) if orc.sym else 1.0 / d
        if ssm == "blockdiag":
            sig2 = [orc.div(z[a] * z[a], S0[a, a]) for a in range(d)]
        else:
            W0 = orc.inv(S0, "S0inv")
            s2 = z.dot(W0).dot(z) * dfrac
            sig2 = [s2] * d
        # absolute error (squared), per compared entry
        if est == "res":
            nn = order + per_unit
            if ssm == "isotropic":
                err2 = [sig2[0] * S0[0, 0]]
            else:
                err2 = [sig2[a] * S0[a, a] for a in range(d)]
            k0 = 0
        else:
            nn = idx + per_unit
            k0 = idx
            # posterior of the mean-only prediction conditioned on the (linearised) constraint
            if ssm == "blockdiag":
                Ppost = orc.zeros((n * d, n * d))
                for a in range(d):
                    sel = [i * d + a for i in range(n)]
                    Qa = Qh[np.ix_(sel, sel)]; Ha = H[a:a + 1][:, sel]
                    Ca = Qa.dot(Ha.T)
                    Pa = Qa - Ca.dot(Ca.T) * orc.div((Poly.const(1) if orc.sym else 1.0), S0[a, a])
                    for ii, i in enumerate(sel):
                        for jj, j in enumerate(sel):
                            Ppost[i, j] = Pa[ii, jj]
            else:
                C = Qh.dot(H.T)
                Ppost = Qh - C.dot(W0).dot(C.T)
            if ssm == "isotropic":
                err2 = [sig2[0] * Ppost[idx * d, idx * d]]
            else:
                err2 = [sig2[a] * Ppost[idx * d + a, idx * d + a] for a in range(d)]
        fac = Fraction(1, math.factorial(nn) ** 2)
        hpow = sc.upow(hh, 2 * nn) * Poly.const(fac) if orc.sym else float(hh) ** (2 * nn) * float(fac)
        err2 = [e * hpow for e in err2]
        ref = []
        for a in range(d):
            u0 = mp[k0 * d + a] * s_prev      # = |u_prev|
            u1 = mn[k0 * d + a] * s_new       # = |u_new|
            ref.append(u0 if prev_larger else u1)
        if norm == "scale_rms":
            tot = Poly() if orc.sym else 0.0
            for a in range(d):
                e2 = err2[a] if len(err2) > 1 else err2[0]
                sc_ = at + rt * ref[a]
                tot = tot + orc.div(e2, sc_ * sc_)
            norm2 = tot * dfrac
        else:
            ea = (sum(err2[1:], err2[0]) * (Poly.const(Fraction(1, len(err2))) if orc.sym else 1.0 / len(err2)))
            # rms_then_scale references the rms of the raw reference vector max(|u_prev|,|u_new|)
            r2 = ref[0] * ref[0]
            for a in range(1, d):
                r2 = r2 + ref[a] * ref[a]
            # |ref|_2 / sqrt(d): same radicands as in the definition of the RMS norm
            rr = orc.div(orc.sqrt(r2), orc.sqrt(Poly.const(d) if orc.sym else float(d)))
            den = at + rt * rr
            norm2 = orc.div(ea, den * den)
        expo = Fraction(-1, q + 1)
        if not orc.sym:
            return {"norm^2": (np.asarray(float(out) ** (-2 * (q + 1))), np.asarray(norm2)),
                    "exponent": (np.asarray(float(expo)), np.asarray(float(expo)))}
        val = out[()] if isinstance(out, np.ndarray) else out
        dom = orc.dom
        assert len(val.t) == 1, f"acceptance quantity is not a single power: {val!r}"
        (mono, c), = val.t.items()
        assert c == 1 and len(mono) == 1 and mono[0][1] == 1, val
        desc = dom.atoms.get(mono[0][0])
        assert desc and desc[0] == "pow", desc
        base, ex_impl = desc[1], desc[2]
        return {"norm^2": (scalar(base * base), scalar(norm2)), "exponent": (scalar(ex_impl), scalar(Poly.const(expo)))}
    return make, goals


def _case(case_id, tier):
    make, goals = build(case_id)
    return PCase("C07/" + case_id, make, goals, budget_s=300 if tier == "quick" else 1200)


def run_case(case_id, tier="quick", seed=0, replay_dir=None, log=print):
    return _case(case_id, tier).run(seed=seed, log=log, replay_dir=replay_dir)


def replay(path):
    import json
    with open(path) as f:
        data = json.load(f)
    return _case(data["case"].split("/", 1)[1], "quick").replay(path)
