"""C03 -- smoothing posterior equals the exact Rauch-Tung-Striebel posterior (back end P)."""
import numpy as np

from jxs.harness import PCase, sym_array, Orc, scalar
from jxs.poly import Poly
from props import common as cm
from props import solvercommon as sc

META = {
    "level": "model_checking",
    "functions": ["strategy_smoother_fixedinterval.predict/apply_updates/finalize/interpolate_fwd_at_t1",
                  "strategy_smoother_fixedpoint.predict/apply_updates/interpolate_fwd_at_t1", "Smoother.init_posterior/finalize",
                  "MarkovSequence.evaluate_marginals/remove_filtering_distributions/rescale_cholesky",
                  "*LatentCond.revert/merge/marginalise", "solver.step/init/userfriendly_output", "ivpsolve.solve_fixed_grid",
                  "backend.tree.tree_array_prepend/append", "ProbabilisticSolver.interpolate_fwd/interpolate_fwd_at_t1 (smoothers)",
                  "RejectionLoop.interp_beyond_t1 (chaining of checkpoints inside one step)"],
    "bounds": {"quick": "one smoother step from an ARBITRARY state incl. an arbitrary previous backward kernel (q=1,d=1; 3 ssm; "
                        "fixed-interval and fixed-point; TS0/TS1); evaluate_marginals on 2 arbitrary backward kernels; "
                        "2-step solve_fixed_grid end to end (uncalibrated and MLE)",
               "thorough": "additionally d=2 for isotropic/blockdiag, 3-step grids, non-zero damping"},
    "assumptions": ["A1 reals", "A2 QR contract", "A3 pivots non-zero (predicted covariance nonsingular)", "A5 induction over "
                    "steps stated, not machine-checked", "smoothed variance <= filtered variance is a consequence of equality "
                    "with the exact posterior and is not separately queried"],
    "outside": ["floating point", "adaptive save-every-step runs (no such routine in this version)", "q>1 / d>2"],
}


def cases(tier):
    out = []
    for ssm in cm.SSMS:
        for strat in ("fixedinterval", "fixedpoint"):
            out.append(f"step/{ssm}/{strat}/none/ts0/o1q1d1/damp_zero")
        out.append(f"step/{ssm}/fixedinterval/none/ts1/o1q1d1/damp_zero")
        out.append(f"marginals/{ssm}/fixedinterval/none/ts0/o1q1d1/damp_zero")
        out.append(f"grid2/{ssm}/fixedinterval/none/ts0/o1q1d1/damp_zero")
        out.append(f"grid2/{ssm}/fixedinterval/mle/ts0/o1q1d1/damp_zero")
        # smoothing at checkpoints (adaptive runs): the interpolation step of both smoothers, shared with C05
        out.append(f"interp/{ssm}/fixedpoint/none/ts0/o1q1d1/damp_zero")
        out.append(f"interp/{ssm}/fixedinterval/none/ts0/o1q1d1/damp_zero")
        out.append(f"interp_at/{ssm}/fixedpoint/none/ts0/o1q1d1/damp_zero")
        # dynamic calibration: the scale carried by the re-based states decides the next checkpoint inside the same step
        out.append(f"interp/{ssm}/fixedpoint/dynamic/ts0/o1q1d1/damp_zero")
    out.append("chain/i/noclip/o2i2")
    # finalisation when the last step overstepped the final time (adaptive runs without clipping)
    for ssm in cm.SSMS:
        out.append(f"finalize/{ssm}/fixedpoint/mle/ts0/o1q1d1/damp_zero")
    if tier == "thorough":
        for ssm in cm.SSMS:
            out.append(f"step/{ssm}/fixedpoint/none/ts1/o1q1d1/damp_sym")
            out.append(f"grid3/{ssm}/fixedinterval/none/ts0/o1q1d1/damp_zero")
            if ssm != "dense":
                out.append(f"step/{ssm}/fixedinterval/none/ts0/o1q1d2/damp_zero")
                out.append(f"marginals/{ssm}/fixedinterval/none/ts0/o1q1d2/damp_zero")
    return out


# ------------------------------------------------------------------ one smoother step from an arbitrary state
def build_step(key):
    cfg = sc.parse_key(key)
    d = cfg.d

    def make(dom):
        co_c = {k: np.ones(s_) for k, s_ in (("c", (d,)), ("C", (d, d)), ("e", (d,)), ("g", (d,)))}
        solver_t, ssm, con = sc.make_solver(cfg, co_c)
        prior_c = sc.concrete_prior(cfg)
        prior_s, pinfo = sc.sym_prior(dom, cfg, prior_c)
        state, sinfo = sc.sym_state(dom, cfg, solver_t, prior_s)
        h = sym_array(dom, "h", (), unit=True)
        damp = sym_array(dom, "damp", ()) if cfg.damp == "sym" else np.zeros(())
        orc0 = Orc(dom)
        A0, Q0 = sc.prior_dense(orc0, cfg, prior_c, pinfo)
        Ah0, _, _ = sc.transition_dense(orc0, cfg, h[()], A0, Q0)
        mp0 = Ah0.dot(cm.embed_vec(orc0, cfg.ssm, sinfo["m"], d))
        ustar = sc.selector(orc0, cfg, 0).dot(mp0)
        co = sc.field_coeffs_at(dom, d, cfg.order, ustar, None, sinfo["t"][()] + h[()])

        def fn(state, h, damp, co, extras):
            solver, _, _ = sc.make_solver(cfg, co)
            s = solver.step(state, dt=h, damp=damp)
            return s.u, s.solution_full
        make.info = (cfg, prior_c)
        extras = {"q1": pinfo["q1"], "lam": pinfo["lam"], "m": sinfo["m"], "L": sinfo["L"], "t": sinfo["t"],
                  "bw": sinfo["bw"]}
        return fn, (state, h, damp, co, extras)

    def goals(args, out, orc):
        state, h, damp, co, ex = args
        cfg_, prior_c = make.info
        u, post = out
        A, Q = sc.prior_dense(orc, cfg, prior_c, ex)
        m, Pm = cm.dense_rv_raw(orc, cfg.ssm, ex["m"], ex["L"], d)
        t0 = sc.sc(orc.arr(ex["t"])); hh = sc.sc(orc.arr(h)); dd = sc.sc(orc.arr(damp))
        ref = sc.ekf_step(orc, cfg, co, m, Pm, t0, hh, dd, A, Q)
        mo, Po = cm.dense_rv(orc, cfg.ssm, u, d)
        mm, Pmm = cm.dense_rv(orc, cfg.ssm, post.marginal, d)
        res = {"mean": (mo, ref["mean"]), "cov": (Po, ref["cov"]),
               "posterior.marginal==u": (np.concatenate([mm, Pmm.reshape(-1)]), np.concatenate([mo, Po.reshape(-1)]))}
        # backward kernel x_t | x_{t+h}  (joint-law form: no inverse of the predicted covariance needed)
        G, o, Sg = cm.dense_cond(orc, cfg.ssm, post.conditional, d)
        Pp, mp, Ah = ref["pred_cov"], ref["pred_mean"], ref["Ah"]
        if cfg.strategy == "fixedinterval":
            res["bw: G P- = P A^T"] = (G.dot(Pp), Pm.dot(Ah.T))
            res["bw: G m- + o = m"] = (G.dot(mp) + o, m)
            res["bw: G P- G^T + Sigma = P"] = (G.dot(Pp).dot(G.T) + Sg, Pm)
        else:
            # fixed-point: previous kernel (x_c | x_t) composed with the new one (x_t | x_{t+h})
            G0, o0, S0 = cm.dense_cond_raw(orc, cfg.ssm, *ex["bw"], d)
            # composite K = G0 Gs, offset = G0 os + o0, noise = G0 Ss G0^T + S0 with (Gs, os, Ss) the exact step kernel
            res["bw: K P- = G0 P A^T"] = (G.dot(Pp), G0.dot(Pm).dot(Ah.T))
            res["bw: K m- + o = G0 m + o0"] = (G.dot(mp) + o, G0.dot(m) + o0)
            res["bw: K P- K^T + Sigma = G0 P G0^T + S0"] = (G.dot(Pp).dot(G.T) + Sg, G0.dot(Pm).dot(G0.T) + S0)
        return res
    return make, goals


# ------------------------------------------------------------------ evaluate_marginals on arbitrary kernels
def build_marginals(key, nk=2):
    cfg = sc.parse_key(key)
    d, n = cfg.d, cfg.n

    def make(dom):
        from probdiffeq._probdiffeq.estimators_and_losses import MarkovSequence
        Cond, Normal = cm.impl(cfg.ssm)
        prior_c = sc.concrete_prior(cfg)
        tf = prior_c.init.tree_flatten
        mT, LT = cm.sym_rv(dom, cfg.ssm, n, d, "T")
        conds = [cm.sym_cond(dom, cfg.ssm, n, n, d, f"k{i}") for i in range(nk)]

        def fn(rvT, conds):
            import jax.numpy as jnp
            import jax
            cs = [Cond(A, Normal(b, Q, tf), to_latent=tl, to_observed=to) for (A, b, Q, tl, to) in conds]
            stacked = jax.tree_util.tree_map(lambda *xs: jnp.stack(xs), *cs)
            seq = MarkovSequence(Normal(*rvT, tf), stacked, reverse=True)
            marg = seq.evaluate_marginals()
            return marg.mean_flat, marg.cholesky_flat
        return fn, ((mT, LT), conds)

    def goals(args, out, orc):
        (mT, LT), conds = args
        means, chols = out
        m, P = cm.dense_rv_raw(orc, cfg.ssm, mT, LT, d)
        res = {}
        mi, Pi = cm.dense_rv_raw(orc, cfg.ssm, orc.arr(means)[nk], orc.arr(chols)[nk], d)
        res[f"marginal[{nk}] (terminal)"] = (np.concatenate([mi, Pi.reshape(-1)]), np.concatenate([m, P.reshape(-1)]))
        for i in range(nk - 1, -1, -1):
            G, o, S = cm.dense_cond_raw(orc, cfg.ssm, *conds[i], d)
            m = G.dot(m) + o
            P = G.dot(P).dot(G.T) + S
            if orc.sym and i > 0:
                m = orc.name(m, f"ms{i}"); P = orc.name(P, f"Ps{i}")
            mi, Pi = cm.dense_rv_raw(orc, cfg.ssm, orc.arr(means)[i], orc.arr(chols)[i], d)
            res[f"mean[{i}]"] = (mi, m)
            res[f"cov[{i}]"] = (Pi, P)
        return res
    return make, goals


# ------------------------------------------------------------------ Smoother.finalize from arbitrary pieces (overstepped last state)
def build_finalize(key):
    """finalize with an ARBITRARY overstepped last state (non-identity posterior1.conditional), one in-between point and a
    symbolic calibration scale: returned marginals, returned backward factorisation and stacked filtering marginals"""
    cfg = sc.parse_key(key)
    d, n = cfg.d, cfg.n

    def make(dom):
        from probdiffeq import probdiffeq
        from probdiffeq._probdiffeq.estimators_and_losses import MarkovSequence
        Cond, Normal = cm.impl(cfg.ssm)
        tf = sc.concrete_prior(cfg).init.tree_flatten
        rv0 = cm.sym_rv(dom, cfg.ssm, n, d, "a")
        rvk = cm.sym_rv(dom, cfg.ssm, n, d, "b")
        rv1 = cm.sym_rv(dom, cfg.ssm, n, d, "e")
        c0 = cm.sym_cond(dom, cfg.ssm, n, n, d, "ka", scal="one")
        ck = cm.sym_cond(dom, cfg.ssm, n, n, d, "kb", scal="one")
        c1 = cm.sym_cond(dom, cfg.ssm, n, n, d, "ke", scal="one")
        sshape = (d,) if cfg.ssm == "blockdiag" else ()
        scale = sym_array(dom, "osc", sshape, unit=True)

        def fn(rv0, rvk, rv1, c0, ck, c1, scale):
            import jax
            import jax.numpy as jnp
            strat = probdiffeq.strategy_smoother_fixedpoint() if cfg.strategy == "fixedpoint" else probdiffeq.strategy_smoother_fixedinterval()

            def mk(c):
                A, b, Q, tl, to = c
                return Cond(A, Normal(b, Q, tf), to_latent=tl, to_observed=to)
            p0 = MarkovSequence(Normal(*rv0, tf), mk(c0), reverse=True)
            stack = lambda x: jax.tree_util.tree_map(lambda a: jnp.stack([a]), x)     # noqa: E731
            pk = MarkovSequence(stack(Normal(*rvk, tf)), stack(mk(ck)), reverse=True)
            p1 = MarkovSequence(Normal(*rv1, tf), mk(c1), reverse=True)
            marg, sol = strat.finalize(posterior0=p0, posterior=pk, posterior1=p1, output_scale=scale)
            fp = sol.posterior
            return (marg.mean_flat, marg.cholesky_flat, fp.marginal.mean_flat, fp.marginal.cholesky_flat,
                    sol.filtering.mean_flat, sol.filtering.cholesky_flat)
        return fn, (rv0, rvk, rv1, c0, ck, c1, scale)

    def goals(args, out, orc):
        rv0, rvk, rv1, c0, ck, c1, scale = args
        mm, mL, fm, fL, flm, flL = [orc.arr(x) for x in out]
        sc_ = orc.arr(scale)
        s2 = orc.zeros((n * d, n * d))
        for i in range(n * d):
            sv = sc_[i % d] if cfg.ssm == "blockdiag" else sc_[()]
            s2[i, i] = sv * sv
        # diagonal scaling commutes here: d=1 (blockdiag with d=1 has a single scale)
        sval = s2[0, 0]
        m1, P1 = cm.dense_rv_raw(orc, cfg.ssm, *rv1, d)
        G1, o1, S1 = cm.dense_cond_raw(orc, cfg.ssm, *c1, d)
        mt = G1.dot(m1) + o1
        Pt = (G1.dot(P1).dot(G1.T) + S1) * sval
        Gk, ok_, Sk = cm.dense_cond_raw(orc, cfg.ssm, *ck, d)
        mk_ = Gk.dot(mt) + ok_
        Pk_ = Gk.dot(Pt).dot(Gk.T) + Sk * sval
        res = {}
        a, b = cm.dense_rv_raw(orc, cfg.ssm, fm, fL, d)
        res["returned factorisation: terminal marginal = overstepped state pulled back to t1 (mean)"] = (a, mt)
        res["returned factorisation: terminal marginal = overstepped state pulled back to t1 (cov, calibrated)"] = (b, Pt)
        a, b = cm.dense_rv_raw(orc, cfg.ssm, mm[-1], mL[-1], d)
        res["marginals[-1] = the same terminal marginal (mean)"] = (a, mt)
        res["marginals[-1] = the same terminal marginal (cov)"] = (b, Pt)
        a, b = cm.dense_rv_raw(orc, cfg.ssm, mm[0], mL[0], d)
        res["marginals[0] = backward kernel applied to the terminal marginal (mean)"] = (a, mk_)
        res["marginals[0] = backward kernel applied to the terminal marginal (cov)"] = (b, Pk_)
        m0, P0 = cm.dense_rv_raw(orc, cfg.ssm, *rv0, d)
        mkk, Pkk = cm.dense_rv_raw(orc, cfg.ssm, *rvk, d)
        a, b = cm.dense_rv_raw(orc, cfg.ssm, flm[0], flL[0], d)
        res["filtering[0] = calibrated initial filtering marginal"] = (np.concatenate([a, b.reshape(-1)]), np.concatenate([m0, (P0 * sval).reshape(-1)]))
        a, b = cm.dense_rv_raw(orc, cfg.ssm, flm[1], flL[1], d)
        res["filtering[1] = calibrated in-between filtering marginal"] = (np.concatenate([a, b.reshape(-1)]), np.concatenate([mkk, (Pkk * sval).reshape(-1)]))
        return res
    return make, goals


# ------------------------------------------------------------------ solve_fixed_grid end to end (relational + backward recursion)
def build_grid(key, nsteps=2):
    cfg = sc.parse_key(key)
    d, n = cfg.d, cfg.n

    def make(dom):
        from probdiffeq import ivpsolve
        co = sc.field_coeffs(dom, d, cfg.order, degree=1)
        prior_c = sc.concrete_prior(cfg)
        prior_s, pinfo = sc.sym_prior(dom, cfg, prior_c)
        _, Normal = cm.impl(cfg.ssm)
        m0, _ = cm.sym_rv(dom, cfg.ssm, n, d, "i")
        ms, cs = cm.rv_shapes(cfg.ssm, n, d)
        L0 = sym_array(dom, "iL", cs, "diag")
        prior_s.init = Normal(m0, L0, prior_c.init.tree_flatten)
        t0 = sym_array(dom, "t0", ())
        hs = [sym_array(dom, f"h{i + 1}", (), unit=True) for i in range(nsteps)]
        grid = np.empty((nsteps + 1,), dtype=object)
        acc = t0[()]
        grid[0] = acc
        for i in range(nsteps):
            acc = acc + hs[i][()]
            grid[i + 1] = acc
        damp = np.zeros(())

        def fn(prior, grid, damp, co, hs):
            import warnings
            solver, _, _ = sc.make_solver(cfg, co)
            with warnings.catch_warnings():
                warnings.simplefilter("ignore")
                sol = ivpsolve.solve_fixed_grid(solver=solver)(prior, grid=grid, damp=damp)
            s = solver.init(t=grid[0], u=prior, damp=damp)
            states = [s]
            for i in range(nsteps):
                s = solver.step(s, dt=hs[i], damp=damp)
                states.append(s)
            return ((sol.t, sol.u, sol.output_scale, sol.solution_full.posterior, sol.solution_full.filtering),
                    [(st.u, st.solution_full.conditional) for st in states], [st.auxiliary for st in states])
        return fn, (prior_s, grid, damp, co, hs)

    def goals(args, out, orc):
        (ts, u, oscale, post, filt), states, aux = out
        N = nsteps
        res = {}
        if cfg.calib == "mle":
            import math
            run = orc.arr(aux[-1][1])
            if orc.sym:
                scale = run * orc.dom.div(Poly.const(1), orc.dom.sqrt_const(N))
            else:
                scale = run / math.sqrt(N)
            scale = sc.sc(orc.arr(scale)) if np.ndim(scale) == 0 else orc.arr(scale)
        else:
            scale = None

        def scaled_cov(P):
            if scale is None:
                return P
            if np.ndim(scale) == 0:
                return P * (scale * scale)
            s2 = np.tile(orc.arr(scale), n)      # blockdiag: per-dimension scale, index i*d + a
            return s2[:, None] * P * s2[None, :]
        um = orc.arr(u.mean_flat); uc = orc.arr(u.cholesky_flat)
        # filtering marginals of the solver's own steps, dense
        fm, fP = [], []
        for (su, scond) in states:
            a, b = cm.dense_rv(orc, cfg.ssm, su, d)
            fm.append(a); fP.append(scaled_cov(b))
        # terminal marginal = filtering marginal at the final time
        mi, Pi = cm.dense_rv_raw(orc, cfg.ssm, um[N], uc[N], d)
        res[f"mean[{N}] = filter mean at final time"] = (mi, fm[N])
        res[f"cov[{N}] = filter cov at final time"] = (Pi, fP[N])
        # earlier marginals: backward recursion through the step kernels (x_k | x_{k+1} stored with state k+1)
        m, P = fm[N], fP[N]
        for k in range(N - 1, -1, -1):
            G, o, S = cm.dense_cond(orc, cfg.ssm, states[k + 1][1], d)
            S = scaled_cov(S)
            m = G.dot(m) + o
            P = G.dot(P).dot(G.T) + S
            if orc.sym and k > 0:
                m = orc.name(m, f"ms{k}"); P = orc.name(P, f"Ps{k}")
            mi, Pi = cm.dense_rv_raw(orc, cfg.ssm, um[k], uc[k], d)
            res[f"mean[{k}]"] = (mi, m)
            res[f"cov[{k}]"] = (Pi, P)
        # the returned backward factorisation: terminal marginal and the N kernels
        pm, pP = cm.dense_rv(orc, cfg.ssm, post.marginal, d)
        res["posterior.marginal = filter at final time"] = (np.concatenate([pm, pP.reshape(-1)]),
                                                            np.concatenate([fm[N], fP[N].reshape(-1)]))
        Cond, Normal = cm.impl(cfg.ssm)
        for k in range(N):
            class _C:
                pass
            c = _C(); c.noise = _C()
            c.A = orc.arr(post.conditional.A)[k]
            c.noise.mean_flat = orc.arr(post.conditional.noise.mean_flat)[k]
            c.noise.cholesky_flat = orc.arr(post.conditional.noise.cholesky_flat)[k]
            c.to_latent = orc.arr(post.conditional.to_latent)[k]
            c.to_observed = orc.arr(post.conditional.to_observed)[k]
            G1, o1, S1 = cm.dense_cond(orc, cfg.ssm, c, d)
            G2, o2, S2 = cm.dense_cond(orc, cfg.ssm, states[k + 1][1], d)
            res[f"posterior.conditional[{k}]"] = (np.concatenate([G1.reshape(-1), o1, S1.reshape(-1)]),
                                                  np.concatenate([G2.reshape(-1), o2, scaled_cov(S2).reshape(-1)]))
        # filtering stack
        flm = orc.arr(filt.mean_flat); flc = orc.arr(filt.cholesky_flat)
        for k in range(N + 1):
            a, b = cm.dense_rv_raw(orc, cfg.ssm, flm[k], flc[k], d)
            res[f"filtering[{k}]"] = (np.concatenate([a, b.reshape(-1)]), np.concatenate([fm[k], fP[k].reshape(-1)]))
        return res
    return make, goals


def _case(case_id, tier):
    kind, key = case_id.split("/", 1)
    if kind == "step":
        make, goals = build_step(key)
    elif kind == "marginals":
        make, goals = build_marginals(key)
    elif kind == "finalize":
        make, goals = build_finalize(key)
    elif kind in ("interp", "interp_at"):
        from props import C05
        make, goals = C05.build_interp(key, at_t1=(kind == "interp_at"))
    elif kind.startswith("grid"):
        make, goals = build_grid(key, nsteps=int(kind[4:]))
    else:
        raise KeyError(kind)
    # in the MLE end-to-end cases the calibrated scale is just a symbol: keep its square root opaque
    sq_mode = "simple" if (kind.startswith("grid") and "/mle/" in key) else "all"
    return PCase("C03/" + case_id, make, goals, budget_s=300 if tier == "quick" else 1200, sq_mode=sq_mode)


def run_case(case_id, tier="quick", seed=0, replay_dir=None, log=print):
    if case_id.startswith("chain/"):
        from props import C05s
        r = C05s.run_case(case_id, tier=tier, seed=seed, replay_dir=replay_dir, log=log)
        r["case"] = r["case"].replace("C05/", "C03/")
        for o in r["obligations"]:
            o["id"] = o["id"].replace("C05/", "C03/")
        return r
    return _case(case_id, tier).run(seed=seed, log=log, replay_dir=replay_dir)


def replay(path):
    import json
    with open(path) as f:
        data = json.load(f)
    if "error_profile" in data:
        from props import C05s
        return C05s.replay(path)
    return _case(data["case"].split("/", 1)[1], "quick").replay(path)
