"""C18 -- initial step-size proposals are positive, finite and follow the heuristics (back end S)."""
import json
import math
import os
import time
import traceback
from fractions import Fraction

import numpy as np
import z3

META = {
    "level": "model_checking",
    "functions": ["ivpsolve.dt0", "ivpsolve.dt0_adaptive", "backend.linalg.vector_norm", "backend.tree.ravel_pytree"],
    "bounds": {"quick": "scalar state (d=1) and d=2 (Euclidean norm abstracted by an uninterpreted function with the norm axioms); "
                        "the vector field is an UNINTERPRETED function (every vector field, incl. f(u0)=0), every real u0 incl. 0, "
                        "t0, atol>0, rtol>0; contraction rates 1,3,12; first- and second-order fields for dt0",
               "thorough": "further contraction rates and second-order fields at d=2"},
    "assumptions": ["reals (magnitudes such as 1e300 are floating-point range questions and are outside)",
                    "x**c, products and quotients of two symbolic terms are uninterpreted functions with sign/monotonicity "
                    "axioms instantiated on the occurring terms (sound abstraction)",
                    "independent model for dt0_adaptive: Hairer-Norsett-Wanner II.4 as in jax.experimental.ode.initial_step_size "
                    "(all three norms weighted by atol + rtol*|y0|)"],
    "outside": ["floating-point overflow/underflow", "'a proposal lets a solve start and finish' is dt0>0 (this check) plus C06"],
}


def cases(tier):
    out = ["dt0/o1/d1", "dt0/o2/d1", "dt0/o1/d2", "adaptive/r1/d1", "adaptive/r3/d1", "adaptive/r12/d1", "adaptive/r3/d2"]
    if tier == "thorough":
        out += ["adaptive/r2/d2", "adaptive/r12/d2", "dt0/o2/d2"]
    return out


def run_case(case_id, tier="quick", seed=0, replay_dir=None, log=print):
    t0 = time.time()
    res = {"case": "C18/" + case_id, "obligations": [], "status": "ok", "notes": []}
    try:
        _run(case_id, res, seed, replay_dir, log)
    except Exception as ex:  # noqa: BLE001
        res["status"] = "error"
        res["notes"].append(traceback.format_exc())
        log(f"  [C18/{case_id}] HARNESS ERROR {ex!r}\n{traceback.format_exc()}")
    res["wall_s"] = round(time.time() - t0, 2)
    return res


def _axioms(dom, consts):
    A = []
    for (q, arg, r) in dom.pow_apps:
        A += [z3.Implies(arg > 0, r > 0), z3.Implies(arg == 1, r == 1)]
        if q > 0:
            A += [z3.Implies(z3.And(arg > 0, arg < 1), r < 1), z3.Implies(arg >= 1, r >= 1)]
        else:
            A += [z3.Implies(z3.And(arg > 0, arg < 1), r > 1), z3.Implies(arg >= 1, z3.And(r <= 1, r > 0))]
    for (a, b, r) in dom.mul_apps:
        A += [z3.Implies(z3.And(a > 0, b > 0), r > 0), z3.Implies(z3.Or(a == 0, b == 0), r == 0),
              z3.Implies(z3.And(a < 0, b < 0), r > 0), z3.Implies(z3.And(a > 0, b < 0), r < 0),
              z3.Implies(z3.And(a < 0, b > 0), r < 0)]
    for (a, b, r) in dom.div_apps:
        A += [z3.Implies(z3.And(a > 0, b > 0), r > 0), z3.Implies(z3.And(a == 0, b != 0), r == 0),
              z3.Implies(z3.And(a < 0, b > 0), r < 0)]
        for c in consts:
            A += [z3.Implies(z3.And(b > 0, a >= c * b), r >= c), z3.Implies(z3.And(b > 0, a <= c * b), r <= c)]
    return A


def _run(case_id, res, seed, replay_dir, log):
    import jax
    import jax.numpy as jnp
    from probdiffeq import ivpsolve, probdiffeq
    from jxs.interp import Interp, is_sym
    from jxs.zdomain import Z3Domain, zarr, zvec
    from jxs import markers
    from jxs.markers import UF
    from jxs.trace import count_eqns
    kind, a, b = case_id.split("/")
    tree = b.endswith("tree")
    d = int(b[1])
    dom = Z3Domain(linearize=True)
    # Euclidean norm of a d>1 vector: uninterpreted NORM with the norm axioms (d=1: |x|)
    orig_sqrt = dom.sqrt
    norm_apps = []

    def sqrt_hook(x):
        xs = z3.simplify(x)
        terms = list(xs.children()) if z3.is_add(xs) else [xs]
        comps = []
        for t in terms:
            if z3.is_app(t) and t.decl().name() == "MUL" and t.arg(0).eq(t.arg(1)):
                comps.append(t.arg(0))
            else:
                comps = None
                break
        if comps is None:
            return orig_sqrt(x)
        if len(comps) == 1:
            return z3.If(comps[0] >= 0, comps[0], -comps[0])
        r = dom.uf(f"NORM{len(comps)}", tuple(comps))
        norm_apps.append((comps, r))
        return r
    dom.sqrt = sqrt_hook

    def field(order):
        if order == 1:
            return probdiffeq.ode(lambda u, *, t: UF("f", *[u[i] for i in range(d)], t, shape=(d,)))
        return probdiffeq.ode_order_two(lambda u, du, *, t: UF("f", *[u[i] for i in range(d)], *[du[i] for i in range(d)], t, shape=(d,)))
    u0 = [z3.Real(f"u{i}") for i in range(d)]
    v0 = [z3.Real(f"v{i}") for i in range(d)]
    t0 = z3.Real("t0")
    atol, rtol = z3.Real("atol"), z3.Real("rtol")
    if kind == "dt0":
        order = int(a[1])

        def fn(u, v, t):
            vf = field(order)
            init = (u,) if order == 1 else (u, v)
            if tree:
                raise NotImplementedError
            return ivpsolve.dt0(vf, init, t=t)
        closed = jax.make_jaxpr(fn)(jnp.ones((d,)), jnp.ones((d,)), 0.0)
        it = Interp(dom)
        markers.install(it)
        (out,) = it.eval(closed.jaxpr, closed.consts, [zvec(u0), zvec(v0), zarr(t0)])
        r = out[()]
        consts = [z3.RealVal(1)]
    else:
        rate = int(a[1:])

        def fn(u, t, atol, rtol):
            vf = field(1)
            return ivpsolve.dt0_adaptive(vf, (u,), t, error_contraction_rate=rate, rtol=rtol, atol=atol)
        closed = jax.make_jaxpr(fn)(jnp.ones((d,)), 0.0, 1e-3, 1e-3)
        it = Interp(dom)
        markers.install(it)
        (out,) = it.eval(closed.jaxpr, closed.consts, [zvec(u0), zarr(t0), zarr(atol), zarr(rtol)])
        r = out[()]
        consts = [z3.RealVal(1), z3.RealVal("1e-5"), z3.RealVal("1e-15")]
    res["encoded"] = {"jaxpr_eqns": count_eqns(closed.jaxpr), "eqns_interpreted": it.n_eqns,
                      "primitives": dict(sorted(it.prims_seen.items())), "uf_apps": len(dom.mul_apps) + len(dom.div_apps) + len(dom.pow_apps)}
    s = z3.Solver(); s.set("timeout", 60000)
    A = [atol > 0, rtol > 0]
    obligations = []
    if kind == "dt0":
        obligations.append(("proposal is strictly positive for every initial value and vector field", r <= 0))
        # documented formula, written independently: scale * (|u0| + nugget) / (|f0| + nugget), u0 = zeroth coefficient only
        def absz(x):
            return z3.If(x >= 0, x, -x)

        def nrm(xs):
            if len(xs) == 1:
                return absz(xs[0])
            rr = dom.uf(f"NORM{len(xs)}", tuple(xs))
            norm_apps.append((xs, rr))
            return rr
        args_f = list(u0) + (list(v0) if order == 2 else []) + [t0]
        f0 = [dom.ufs[f"f[{k}]"](*args_f) for k in range(d)]
        nug = z3.RealVal("1e-5")
        model = dom.div(z3.RealVal("0.01") * (nrm(list(u0)) + nug), nrm(f0) + nug)
        obligations.append(("proposal equals scale*(|u0|+nugget)/(|f0|+nugget)", r != model))
    else:
        obligations.append(("proposal is strictly positive for every initial value and vector field", r <= 0))
        # independent model (HNW II.4 / jax.experimental.ode.initial_step_size), over the same abstractions
        model = hnw_model(dom, u0, t0, atol, rtol, rate, d, norm_apps)
        obligations.append(("proposal equals the Hairer-Norsett-Wanner II.4 heuristic", r != model))
    A += _axioms(dom, consts)
    for comps, nr in norm_apps:
        A += [nr >= 0, z3.Implies(z3.And([c == 0 for c in comps]), nr == 0), z3.Implies(z3.Or([c != 0 for c in comps]), nr > 0)]
        absl = [z3.If(c >= 0, c, -c) for c in comps]
        A.append(nr <= z3.Sum(absl))
        for i, c in enumerate(comps):
            A += [nr >= c, nr >= -c]
            others = [comps[j] == 0 for j in range(len(comps)) if j != i]
            A.append(z3.Implies(z3.And(others), nr == absl[i]))
    A += dom.side
    s.add(A)
    r0 = str(s.check())
    res["vacuity"] = {"assumptions_satisfiable": r0}
    if r0 != "sat":
        res["status"] = "inconclusive"; res["notes"].append(f"assumptions: {r0}"); return
    fdecl = dom.ufs
    for name, viol in obligations:
        tt = time.time()
        s.push(); s.add(viol); rr = str(s.check())
        m = s.model() if rr == "sat" else None
        s.pop()
        ob = {"id": f"C18/{case_id}/{name}", "queries": 1, "solver_s": round(time.time() - tt, 3), "nontrivial": True}
        if rr == "unsat":
            ob["status"] = "holds"
        elif rr == "sat":
            ok, info = replay_model(case_id, m, u0, v0, t0, atol, rtol, dom, name)
            ob["counterexample"] = info
            ob["status"] = "violated" if ok is False else "inconclusive"
            if ok is False and replay_dir:
                os.makedirs(replay_dir, exist_ok=True)
                path = os.path.join(replay_dir, (ob["id"].replace("/", "__").replace(" ", "_"))[:140] + ".json")
                with open(path, "w") as f:
                    json.dump({"case": case_id, "obligation": ob["id"], **info}, f, indent=1)
                ob["replay"] = path
            if ok is not False:
                ob["note"] = "solver model does not reproduce on the real code (abstraction too coarse for this model)"
        else:
            ob["status"] = "inconclusive"; ob["note"] = f"solver: {rr}"
        res["obligations"].append(ob)
        log(f"  [C18/{case_id}] {name}: {ob['status']} ({ob['solver_s']}s)")
    res["states"] = 1 + len(dom.mul_apps) + len(dom.div_apps); res["transitions"] = len(obligations)


def hnw_model(dom, u0, t0, atol, rtol, rate, d, norm_apps):
    """z3 term of the HNW II.4 starting step, written independently of the library (same UF abstractions)"""

    def F(y, t):
        # the library's UF marker yields one application per output component: names f[0], f[1], ...
        return [dom.ufs[f"f[{k}]"](*y, t) if f"f[{k}]" in dom.ufs else None for k in range(d)]

    def absz(x):
        return z3.If(x >= 0, x, -x)

    def norm(xs):
        if len(xs) == 1:
            return absz(xs[0])
        r = dom.uf(f"NORM{len(xs)}", tuple(xs))
        norm_apps.append((xs, r))
        return r
    scale = [atol + dom.mul(absz(u0[i]), rtol) for i in range(d)]
    f0 = F(u0, t0)
    d0 = norm([dom.div(u0[i], scale[i]) for i in range(d)])
    d1 = norm([dom.div(f0[i], scale[i]) for i in range(d)])
    small = z3.RealVal("1e-5")
    h0 = z3.If(z3.Or(d0 < small, d1 < small), z3.RealVal("1e-6"), dom.div(z3.RealVal("0.01") * d0, d1))
    y1 = [u0[i] + dom.mul(h0, f0[i]) for i in range(d)]
    f1 = F(y1, t0 + h0)
    d2 = dom.div(norm([dom.div(f1[i] - f0[i], scale[i]) for i in range(d)]), h0)
    tiny = z3.RealVal("1e-15")
    mx = z3.If(d1 >= d2, d1, d2)
    h1 = z3.If(z3.And(d1 <= tiny, d2 <= tiny),
               z3.If(z3.RealVal("1e-6") >= h0 * z3.RealVal("1e-3"), z3.RealVal("1e-6"), h0 * z3.RealVal("1e-3")),
               dom.pow(dom.div(z3.RealVal("0.01"), mx), Fraction(1, rate + 1)))
    return z3.If(100 * h0 <= h1, 100 * h0, h1)


# ------------------------------------------------------------------------------------------ replay
def _f(m, x):
    v = m.eval(x, model_completion=True)
    try:
        return float(Fraction(v.numerator_as_long(), v.denominator_as_long()))
    except Exception:  # noqa: BLE001
        return float(v.approx(12).as_fraction()) if hasattr(v, "approx") else 0.0


def real_run(case_id, params):
    """the real helper on a concrete problem: affine field f(u,t) = F0 + J (u - u0) chosen to match the model's f-values"""
    import jax.numpy as jnp
    from probdiffeq import ivpsolve, probdiffeq
    kind, a, b = case_id.split("/")
    d = int(b[1])
    u0 = jnp.asarray(params["u0"]); f0 = jnp.asarray(params["f0"]); J = jnp.asarray(params.get("J", np.zeros((d, d))))
    W = jnp.asarray(params.get("W", np.zeros((d,)))); T0 = params["t0"]
    if kind == "dt0":
        order = int(a[1])
        if order == 1:
            vf = probdiffeq.ode(lambda u, *, t: f0 + J @ (u - u0) + W * (t - T0))
            return float(ivpsolve.dt0(vf, (u0,), t=params["t0"]))
        v0 = jnp.asarray(params["v0"])
        vf = probdiffeq.ode_order_two(lambda u, du, *, t: f0 + J @ (u - u0))
        return float(ivpsolve.dt0(vf, (u0, v0), t=params["t0"]))
    rate = int(a[1:])
    vf = probdiffeq.ode(lambda u, *, t: f0 + J @ (u - u0) + W * (t - T0))
    return float(ivpsolve.dt0_adaptive(vf, (u0,), params["t0"], error_contraction_rate=rate, rtol=params["rtol"], atol=params["atol"]))


def hnw_reference(params, rate):
    """plain-NumPy HNW II.4 (jax.experimental.ode.initial_step_size), affine field"""
    u0 = np.asarray(params["u0"], dtype=float); f0 = np.asarray(params["f0"], dtype=float)
    J = np.asarray(params.get("J", np.zeros((len(u0), len(u0)))), dtype=float)
    atol, rtol = params["atol"], params["rtol"]
    W = np.asarray(params.get("W", np.zeros(len(u0))), dtype=float)
    scale = atol + np.abs(u0) * rtol
    d0 = np.linalg.norm(u0 / scale); d1 = np.linalg.norm(f0 / scale)
    h0 = 1e-6 if (d0 < 1e-5 or d1 < 1e-5) else 0.01 * d0 / d1
    y1 = u0 + h0 * f0
    f1 = f0 + J @ (y1 - u0) + W * h0           # field evaluated at (y1, t0 + h0)
    d2 = np.linalg.norm((f1 - f0) / scale) / h0
    if d1 <= 1e-15 and d2 <= 1e-15:
        h1 = max(1e-6, h0 * 1e-3)
    else:
        h1 = (0.01 / max(d1, d2)) ** (1.0 / (rate + 1))
    return min(100 * h0, h1)


def replay_model(case_id, m, u0, v0, t0, atol, rtol, dom, name):
    kind, a, b = case_id.split("/")
    d = int(b[1])
    params = {"u0": [_f(m, x) for x in u0], "v0": [_f(m, x) for x in v0], "t0": _f(m, t0),
              "atol": max(_f(m, atol), 1e-12), "rtol": max(_f(m, rtol), 1e-12)}
    # value of f at the initial point according to the model
    fz = []
    for k in range(d):
        fk = dom.ufs.get(f"f[{k}]")
        args = list(u0) + (list(v0) if (kind == "dt0" and a == "o2") else []) + [t0]
        fz.append(_f(m, fk(*args)) if fk is not None else 0.0)
    params["f0"] = fz
    info = {"params": params, "obligation_name": name}
    try:
        val = real_run(case_id, params)
        info["real_value"] = val
        if "positive" in name:
            bad = not (val > 0 and math.isfinite(val))
        elif kind == "dt0":
            un = float(np.linalg.norm(params["u0"])); fn_ = float(np.linalg.norm(params["f0"]))
            ref = 0.01 * (un + 1e-5) / (fn_ + 1e-5)
            info["formula_reference"] = ref
            bad = abs(val - ref) > 1e-9 * max(1.0, abs(ref))
        else:
            ref = hnw_reference(params, int(a[1:]))
            info["hnw_reference"] = ref
            bad = abs(val - ref) > 1e-9 * max(1.0, abs(ref))
            if not bad:
                # the solver's witness may rely on a field that is not affine: try a few slopes
                for slope, wt in ((1.0, 0.0), (-3.0, 0.0), (10.0, 0.0), (0.0, 1000.0), (1.0, -50.0)):
                    p2 = dict(params); p2["J"] = (slope * np.eye(d)).tolist(); p2["W"] = [wt] * d
                    v2 = real_run(case_id, p2); r2 = hnw_reference(p2, int(a[1:]))
                    if abs(v2 - r2) > 1e-9 * max(1.0, abs(r2)):
                        info.update({"params": p2, "real_value": v2, "hnw_reference": r2}); bad = True
                        break
        return (False if bad else True), info
    except Exception as ex:  # noqa: BLE001
        info["replay_error"] = repr(ex)
        return None, info


def replay(path):
    with open(path) as f:
        data = json.load(f)
    val = real_run(data["case"], data["params"])
    print("real value:", val, "params:", data["params"])
    if "positive" in data["obligation_name"]:
        bad = not (val > 0 and math.isfinite(val))
    elif data["case"].startswith("dt0"):
        ref = 0.01 * (float(np.linalg.norm(data["params"]["u0"])) + 1e-5) / (float(np.linalg.norm(data["params"]["f0"])) + 1e-5)
        print("formula reference:", ref)
        bad = abs(val - ref) > 1e-9 * max(1.0, abs(ref))
    else:
        ref = hnw_reference(data["params"], int(data["case"].split("/")[1][1:]))
        print("HNW reference:", ref)
        bad = abs(val - ref) > 1e-9 * max(1.0, abs(ref))
    if bad:
        print(f"VIOLATION property=C18 replay={path}")
        return 1
    print("counterexample does not reproduce on the current tree")
    return 0


def evidence(tier, seed, results, wall):
    return {"coverage": {"states": max(1, sum(r.get("states", 0) for r in results)),
                         "transitions": max(1, sum(r.get("transitions", 0) for r in results)),
                         "traces_validated_against_impl": sum(1 for r in results for o in r.get("obligations", []) if o.get("counterexample")),
                         "samples": [{"case": r.get("case"), "encoded": r.get("encoded"), "vacuity": r.get("vacuity")} for r in results[:3]] or [{}]}}
