"""C19 -- constrained weighted least squares (Gauss-Newton) used for MAP linearisation (back ends P and S)."""
import json
import time
import traceback
from fractions import Fraction

import numpy as np

from jxs.harness import PCase, sym_array, Orc, scalar
from jxs.poly import Poly
from props import common as cm

META = {
    "level": "model_checking",
    "functions": ["lstsq_constrained_gauss_newton.__call__ (body_fun, cond_fun, init, stats)",
                  "taylor_point_maximum_a_posteriori.__call__", "DenseResidual.constraint_flat/linearize",
                  "backend.linalg.lstsq_svd (contract)", "backend.linalg.vector_norm"],
    "bounds": {"quick": "P: ONE Gauss-Newton step of the real body_fun (the routine's own while_loop argument is used to apply the "
                        "body once) from an ARBITRARY iterate x, mean m, factor L, for polynomial constraints with symbolic "
                        "coefficients: D in {2,3} variables, k in {1,2} rows, affine and affine+bilinear, full and rank-deficient "
                        "(zero column) factors; MAP Taylor point on an arbitrary DenseNormal (lower-triangular factor) with a "
                        "time-dependent affine constraint; residual linearisation at the MAP point.  S: the whole routine with "
                        "the real while loop, maxiter in {1,2,3} (loop unrolled maxiter times, unwinding condition discharged), "
                        "D=2, k=1, symbolic tolerance, products/quotients/norms as uninterpreted functions; the real cond_fun on an "
                        "ARBITRARY loop state (iteration counter 0, maxiter-1, maxiter) against the documented three-way rule",
               "thorough": "D=4,k=2 and D=3,k=2 bilinear step cases; maxiter 4"},
    "assumptions": ["A1 reals", "A4 lstsq contract: minimum-norm least squares (normal equations + range condition)",
                    "J Sigma J^T is non-singular (inconsistent/redundant constraint rows are outside)",
                    "first-order optimality of the limit follows from the step identity: a fixed point x = m - Sigma J^T "
                    "(J Sigma J^T)^{-1}(f(x) + J(m-x)) with f(x)=0 has x - m in range(Sigma J^T) (stated)"],
    "outside": ["convergence rate / number of iterations needed for nonlinear constraints", "D>4", "floating-point tolerances"],
}


def cases(tier):
    out = ["step/D2k1/affine/full", "step/D2k1/quad/full", "step/D3k1/quad/full", "step/D3k2/affine/full",
           "step/D3k1/quad/singular", "step/D3k2/affine/singular", "map/D3k1/affine/lower", "map/D3k2/affine/lower",
           "lin/n2d1/affine/lower", "loop/M1", "loop/M2", "loop/M3", "cond/M3/i0", "cond/M3/i2", "cond/M3/i3"]
    if tier == "thorough":
        out += ["step/D3k2/quad/full", "step/D4k2/affine/full", "loop/M4"]
    return out


def _constraint_np(co, s, x, kind):
    """polynomial constraint written around the current iterate x (every affine+bilinear polynomial can be re-centred
    like this, so nothing is lost): f(s) = f0 + J0 (s - x) + q (s0 - x0)(s1 - x1)"""
    out = co["c"] + co["A"].dot(s - x)
    if kind == "quad":
        out = out + co["q"] * ((s[0] - x[0]) * (s[1] - x[1]))
    return out


def build_step(case_id):
    _, sz, kind, fac = case_id.split("/")
    D, k = int(sz[1]), int(sz[3])

    def make(dom):
        from probdiffeq import probdiffeq
        x = sym_array(dom, "x", (D,))
        m = sym_array(dom, "m", (D,))
        L = sym_array(dom, "L", (D, D))
        if fac == "singular":
            for i in range(D):
                L[i, D - 1] = Poly()
        co = {"c": sym_array(dom, "c", (k,)), "A": sym_array(dom, "A", (k, D)), "q": sym_array(dom, "q", (k,))}

        x0 = sym_array(dom, "xstart", (D,))

        def fn(x, m, L, co, x0):
            import dataclasses

            def constraint(s):
                out = co["c"] + co["A"] @ (s - x)
                if kind == "quad":
                    out = out + co["q"] * ((s[0] - x[0]) * (s[1] - x[1]))
                return out

            # the routine's own extension point: apply the REAL loop body exactly once, to a loop state whose iterate is
            # an arbitrary x (not the start x0): the inductive step of the iteration
            def once(cond, body, init):
                return body(dataclasses.replace(init, x=x, fx=constraint(x), i=init.i + 3))
            nl = probdiffeq.lstsq_constrained_gauss_newton(while_loop=once)
            xn, stats = nl(constraint, x0, m, L)
            return xn, stats["iters"], stats["final_constraint"], stats["final_increment"]
        return fn, (x, m, L, co, x0)

    def goals(args, out, orc):
        x, m, L, co, _x0 = [orc.arr(a) if not isinstance(a, dict) else {k_: orc.arr(v) for k_, v in a.items()} for a in args]
        xn, iters, fc, fi = out
        xn = orc.arr(xn)
        Sig = L.dot(L.T)
        J = co["A"]          # value and Jacobian at the iterate are the symbols c, A themselves
        fx = co["c"]
        H = orc.name(J.dot(L), "H")
        S = orc.name(H.dot(H.T), "S")
        W = orc.inv(S, "Sinv")
        want = m - L.dot(H.T).dot(W).dot(fx + J.dot(m - x))
        res = {"iterate = m - Sigma J^T (J Sigma J^T)^-1 (f(x) + J(m - x))": (xn, want),
               "reported residual = constraint at the returned point": (orc.arr(fc), _constraint_np(co, xn, x, kind)),
               "reported increment = returned point - previous iterate": (orc.arr(fi), xn - x),
               "iteration counter advances by one (3 -> 4)": (orc.arr(np.asarray(iters, dtype=float)), orc.arr(4 * np.ones(())))}
        if kind == "affine":
            # S = J Sigma J^T is non-singular (assumption), so f(x_new) = 0  <=>  S f(x_new) = 0
            res["affine: feasible after one step ((J Sigma J^T) f(x_new) = 0)"] = (S.dot(orc.arr(fc)), orc.zeros((k,)))
        return res
    return make, goals


def build_map(case_id):
    _, sz, kind, fac = case_id.split("/")
    D, k = int(sz[1]), int(sz[3])

    def make(dom):
        import jax.numpy as jnp
        from probdiffeq import probdiffeq
        from probdiffeq._probdiffeq import ssm_impl_dense
        ssm = ssm_impl_dense.state_space_model_dense()
        prior = ssm.prior_wiener_integrated([jnp.ones((1,))] * D)
        tf = prior.init.tree_flatten
        m = sym_array(dom, "m", (D,))
        L = sym_array(dom, "L", (D, D), "lower")
        t = sym_array(dom, "t", ())
        co = {"c": sym_array(dom, "c", (k,)), "A": sym_array(dom, "A", (k, D)), "e": sym_array(dom, "e", (k,))}

        def fn(m, L, t, co):
            rv = ssm_impl_dense.DenseNormal(m, L, tf)
            nl = probdiffeq.lstsq_constrained_gauss_newton(while_loop=lambda cond, body, init: body(init))
            tp = probdiffeq.taylor_point_maximum_a_posteriori(nl)
            return tp(lambda s, *, t: co["c"] + co["A"] @ s + co["e"] * t, rv, t=t)
        return fn, (m, L, t, co)

    def goals(args, out, orc):
        m, L, t, co = [orc.arr(a) if not isinstance(a, dict) else {k_: orc.arr(v) for k_, v in a.items()} for a in args]
        tt = t[()]
        Sig = L.dot(L.T)
        A = co["A"]
        S = orc.name(A.dot(Sig).dot(A.T), "S")
        W = orc.inv(S, "Sinv")
        r = co["c"] + A.dot(m) + co["e"] * tt
        return {"MAP point = Gaussian conditional mean (affine constraint)": (orc.arr(out), m - Sig.dot(A.T).dot(W).dot(r))}
    return make, goals


def build_lin(case_id):
    """DenseResidual.linearize at the MAP point, affine residual in (u, u')"""
    n, d = 2, 1

    def make(dom):
        import jax.numpy as jnp
        from probdiffeq import probdiffeq
        from probdiffeq._probdiffeq import ssm_impl_dense, problems
        ssm = ssm_impl_dense.state_space_model_dense()
        prior = ssm.prior_wiener_integrated([jnp.ones((d,))] * n)
        tf = prior.init.tree_flatten
        m = sym_array(dom, "m", (n * d,))
        L = sym_array(dom, "L", (n * d, n * d), "lower")
        t = sym_array(dom, "t", ())
        damp = sym_array(dom, "damp", ())
        co = {"c": sym_array(dom, "c", (d,)), "a0": sym_array(dom, "a0", (d, d)), "a1": sym_array(dom, "a1", (d, d)),
              "e": sym_array(dom, "e", (d,))}

        def fn(m, L, t, damp, co):
            rv = ssm_impl_dense.DenseNormal(m, L, tf)
            nl = probdiffeq.lstsq_constrained_gauss_newton(while_loop=lambda cond, body, init: body(init))
            tp = probdiffeq.taylor_point_maximum_a_posteriori(nl)
            residual = problems.residual_velocity(lambda u, du, *, t: co["c"] + co["a0"] @ u + co["a1"] @ du + co["e"] * t)
            con = ssm.constraint_residual(residual, taylor_point=tp)
            state = con.init_linearization() if hasattr(con, "init_linearization") else con.init_jacobian_handler()
            cond, _ = con.linearize(rv, state, damp=damp, t=t)
            return cond.A, cond.noise.mean_flat, cond.noise.cholesky_flat
        return fn, (m, L, t, damp, co)

    def goals(args, out, orc):
        m, L, t, damp, co = [orc.arr(a) if not isinstance(a, dict) else {k_: orc.arr(v) for k_, v in a.items()} for a in args]
        A, b, C = out
        Aw = np.concatenate([co["a0"], co["a1"]], axis=1)
        bw = co["c"] + co["e"] * t[()]
        Cc = orc.arr(C)
        dd = damp[()]
        return {"linearisation of an affine residual is the residual itself: A": (orc.arr(A), Aw),
                "linearisation of an affine residual is the residual itself: bias": (orc.arr(b), bw),
                "noise covariance = damp^2 I": (Cc.dot(Cc.T), orc.eye(d) * (dd * dd))}
    return make, goals


# --------------------------------------------------------------------------- back end S: the loop
def run_loop(case_id, res, seed, replay_dir, log):
    import z3
    import jax
    import jax.numpy as jnp
    from probdiffeq import probdiffeq
    from jxs.interp import Interp
    from jxs.zdomain import Z3Domain, zarr, zvec
    from jxs.trace import count_eqns
    M = int(case_id.split("/")[1][1:])
    D, k = 2, 1
    dom = Z3Domain(linearize=True)
    dom.linearize_dot = True
    # Euclidean norm: |x| for one component, otherwise an uninterpreted NORM with the norm axioms (as in C18);
    # the norm is a FUNCTION of its components, so the routine's stopping rule and the obligations see the same term
    orig_sqrt = dom.sqrt
    norm_apps = []

    def sqrt_hook(a):
        import math
        xs = z3.simplify(a)
        if z3.is_rational_value(xs):
            v = Fraction(xs.numerator_as_long(), xs.denominator_as_long())
            return z3.RealVal(str(Fraction(math.sqrt(v))))
        terms = list(xs.children()) if z3.is_add(xs) else [xs]
        comps = []
        for t_ in terms:
            if z3.is_app(t_) and t_.decl().name() == "MUL" and t_.arg(0).eq(t_.arg(1)):
                comps.append(t_.arg(0))
            else:
                return orig_sqrt(a)
        if len(comps) == 1:
            return z3.If(comps[0] >= 0, comps[0], -comps[0])
        r_ = dom.uf(f"NORM{len(comps)}", tuple(comps))
        norm_apps.append((comps, r_))
        return r_
    dom.sqrt = sqrt_hook
    X0 = [z3.Real(f"x{i}") for i in range(D)]
    Mn = [z3.Real(f"m{i}") for i in range(D)]
    Lz = [[z3.Real(f"L{i}{j}") for j in range(D)] for i in range(D)]
    c, q, tol = z3.Real("c"), z3.Real("q"), z3.Real("tol")
    Az = [z3.Real(f"A{j}") for j in range(D)]

    def fn(x0, m, L, c, A, q, tol):
        def constraint(s):
            return jnp.stack([c + A @ s + q * s[0] * s[1]])
        nl = probdiffeq.lstsq_constrained_gauss_newton(maxiter=M, tol=tol)
        xn, stats = nl(constraint, x0, m, L)
        return xn, stats["iters"], stats["final_constraint"], stats["final_increment"], constraint(xn), constraint(x0)
    closed = jax.make_jaxpr(fn)(jnp.ones(D), jnp.ones(D), jnp.eye(D), 1.0, jnp.ones(D), 1.0, 1e-6)
    it = Interp(dom, while_bound=M + 1)
    Larr = np.empty((D, D), dtype=object)
    for i in range(D):
        for j in range(D):
            Larr[i, j] = Lz[i][j]
    outs = it.eval(closed.jaxpr, closed.consts, [zvec(X0), zvec(Mn), Larr, zarr(c), zvec(Az), zarr(q), zarr(tol)])
    xn, iters, fc, fi, f_at_xn, f_at_x0 = outs
    res["encoded"] = {"jaxpr_eqns": count_eqns(closed.jaxpr), "eqns_interpreted": it.n_eqns,
                      "primitives": dict(sorted(it.prims_seen.items())),
                      "uf_apps": len(dom.mul_apps) + len(dom.div_apps), "while_unrolled": M + 1}
    import math
    sqrtk = z3.RealVal(str(Fraction(math.sqrt(k))))
    sqrtD = z3.RealVal(str(Fraction(math.sqrt(D))))

    def as_real(v):
        v = v[()] if isinstance(v, np.ndarray) and v.shape == () else v
        return v if z3.is_expr(v) else z3.RealVal(str(v))
    iters_z = as_real(iters)
    if z3.is_int(iters_z):
        iters_z = z3.ToReal(iters_z)
    obligations = []

    def ob(name, claim):
        obligations.append((name, claim))
    ob("0 <= iters <= maxiter", z3.And(iters_z >= 0, iters_z <= M))
    ob("reported residual = constraint at the returned point", as_real(fc[0]) == as_real(f_at_xn[0]))
    # the norm terms used by the routine are re-created by tracing the same expressions: compare through the stop rule
    nf = _norm(dom, [as_real(fc[0])])
    nd = _norm(dom, [as_real(fi[i]) for i in range(D)])
    ob("stopped before the budget => feasible to tolerance or stagnated",
       z3.Implies(iters_z < M, z3.Or(nf <= tol * sqrtk, nd <= tol * sqrtD)))
    nf0 = _norm(dom, [as_real(f_at_x0[0])])
    side = list(dom.side) + [tol > 0, tol < 1]
    for comps, nr in norm_apps:
        side += [nr >= 0, z3.Implies(z3.And([c_ == 0 for c_ in comps]), nr == 0),
                 z3.Implies(z3.Or([c_ != 0 for c_ in comps]), nr > 0)]
    res["encoded"]["norm_apps"] = len(norm_apps)
    # products are an uninterpreted MUL: commutativity instantiated on every occurring application
    MULf = dom.ufs.get("MUL")
    for (a_, b_, r_) in list(dom.mul_apps):
        side.append(r_ == MULf(b_, a_))
    ob("feasible start => zero iterations and the start is returned",
       z3.Implies(nf0 <= tol * sqrtk, z3.And(iters_z == 0, *[as_real(xn[i]) == X0[i] for i in range(D)])))
    ob("infeasible start and budget >= 1 => at least one iteration", z3.Implies(nf0 > tol * sqrtk, iters_z >= 1))
    # unwinding: the loop cannot continue beyond the unrolling
    for u in it.unwinding:
        g = [x for x in u["guard"] if z3.is_expr(x)]
        ob(f"unwinding: loop exits within {u['bound']} iterations", z3.Not(z3.And(*g, u["residual"])))
    for name, claim in obligations:
        t0 = time.time()
        s = z3.Solver()
        s.set("timeout", 120000)
        for a in side:
            s.add(a)
        s.add(z3.Not(claim))
        r = str(s.check())
        status = {"unsat": "proved", "sat": "violated", "unknown": "unknown"}[r]
        entry = {"id": f"C19/{case_id}/{name}", "status": status, "solver_s": round(time.time() - t0, 2), "queries": 1}
        if r == "sat":
            # replay on the real routine at the model's inputs (float64); UF abstraction may be spurious
            mdl = s.model()
            ok, info = _replay_loop(mdl, X0, Mn, Lz, c, Az, q, tol, M, name)
            if ok:
                path = _write_replay(replay_dir, case_id, name, info)
                entry["replay"] = path
            else:
                entry["status"] = "unknown"
                entry["note"] = "abstract counterexample did not reproduce on the real routine: " + json.dumps(info)[:300]
        log(f"  [C19/{case_id}] {name}: {entry['status']} {entry['solver_s']}s")
        res["obligations"].append(entry)
    # vacuity witness: the loop body is reachable (iters >= 1 satisfiable)
    s = z3.Solver()
    s.set("timeout", 60000)
    for a in side:
        s.add(a)
    s.add(iters_z >= 1)
    r = str(s.check())
    res["obligations"].append({"id": f"C19/{case_id}/witness: an execution with >= 1 iteration exists", "status":
                               "proved" if r == "sat" else "unknown", "queries": 1})


def _install_norm_hook(dom):
    """Euclidean norm: |x| for one component, otherwise an uninterpreted NORM of the components (a FUNCTION, so the
    routine's stopping rule and the obligations see the same term)"""
    import math
    import z3
    orig_sqrt = dom.sqrt
    norm_apps = []

    def sqrt_hook(a):
        xs = z3.simplify(a)
        if z3.is_rational_value(xs):
            v = Fraction(xs.numerator_as_long(), xs.denominator_as_long())
            return z3.RealVal(str(Fraction(math.sqrt(v))))
        terms = list(xs.children()) if z3.is_add(xs) else [xs]
        comps = []
        for t_ in terms:
            if z3.is_app(t_) and t_.decl().name() == "MUL" and t_.arg(0).eq(t_.arg(1)):
                comps.append(t_.arg(0))
            else:
                return orig_sqrt(a)
        if len(comps) == 1:
            return z3.If(comps[0] >= 0, comps[0], -comps[0])
        r_ = dom.uf(f"NORM{len(comps)}", tuple(comps))
        norm_apps.append((comps, r_))
        return r_
    dom.sqrt = sqrt_hook
    return norm_apps


def _cond_real(M, i_val, fx, dx, tol_):
    """the REAL cond_fun of the routine on a given loop state (reached through its while_loop argument)"""
    import dataclasses
    import jax.numpy as jnp
    from probdiffeq import probdiffeq
    box = {}
    D = len(dx)

    def hook(cond, body, init):
        box["c"] = cond(dataclasses.replace(init, fx=fx, dx=dx, i=i_val))
        return init
    nl = probdiffeq.lstsq_constrained_gauss_newton(maxiter=M, tol=tol_, while_loop=hook)
    nl(lambda s_: jnp.stack([s_[0] + s_[1]]), jnp.ones(D), jnp.ones(D), jnp.eye(D))
    return box["c"]


def run_cond(case_id, res, seed, replay_dir, log):
    """cond_fun on an ARBITRARY loop state: the loop continues exactly when the constraint is not met to tolerance AND
    budget is left AND the last increment is not small (the documented three-way rule)"""
    import math
    import z3
    import jax
    import jax.numpy as jnp
    from jxs.interp import Interp
    from jxs.zdomain import Z3Domain, zarr, zvec
    from jxs.trace import count_eqns
    _, mm, ii = case_id.split("/")
    M, i_val = int(mm[1:]), int(ii[1:])
    D, k = 2, 1
    dom = Z3Domain(linearize=True)
    dom.linearize_dot = True
    norm_apps = _install_norm_hook(dom)
    FX = [z3.Real("fx0")]
    DX = [z3.Real(f"dx{j}") for j in range(D)]
    tol = z3.Real("tol")
    closed = jax.make_jaxpr(lambda fx, dx, t: _cond_real(M, i_val, fx, dx, t))(jnp.ones(k), jnp.ones(D), 1e-6)
    it = Interp(dom)
    (c_impl,) = it.eval(closed.jaxpr, closed.consts, [zvec(FX), zvec(DX), zarr(tol)])
    c_impl = c_impl[()]
    if not z3.is_expr(c_impl):
        c_impl = z3.BoolVal(bool(c_impl))
    res["encoded"] = {"jaxpr_eqns": count_eqns(closed.jaxpr), "eqns_interpreted": it.n_eqns,
                      "primitives": dict(sorted(it.prims_seen.items())), "norm_apps": len(norm_apps)}
    nf = _norm(dom, FX)
    nd = _norm(dom, DX)
    side = list(dom.side) + [tol > 0]
    for comps, nr in norm_apps:
        side += [nr >= 0, z3.Implies(z3.And([c_ == 0 for c_ in comps]), nr == 0)]
    want = z3.And(nf > tol * z3.RealVal(str(Fraction(math.sqrt(k)))), z3.BoolVal(i_val < M),
                  nd > tol * z3.RealVal(str(Fraction(math.sqrt(D)))))
    name = "continue <=> (|f| > tol sqrt(rows)) and (i < maxiter) and (|dx| > tol sqrt(D))"
    t0 = time.time()
    sv = z3.Solver(); sv.set("timeout", 60000)
    for a in side:
        sv.add(a)
    sv.add(c_impl != want)
    r = str(sv.check())
    entry = {"id": f"C19/{case_id}/{name}", "status": {"unsat": "proved", "sat": "violated"}.get(r, "unknown"),
             "solver_s": round(time.time() - t0, 2), "queries": 1}
    if r == "sat":
        mdl = sv.model()

        def val(v):
            x = mdl.eval(v, model_completion=True)
            return float(x.numerator_as_long()) / float(x.denominator_as_long())
        # a concrete state with the model's norms: fx = (f0), dx = (|dx|, 0)
        info = {"maxiter": M, "i": i_val, "fx": [val(FX[0])], "dx": [val(nd), 0.0], "tol": val(tol), "obligation": name,
                "kind_cond": True}
        ok, detail = cond_oracle(info)
        info["detail"] = detail
        if not ok:
            entry["replay"] = _write_replay(replay_dir, case_id, name, info)
        else:
            entry["status"] = "unknown"
            entry["note"] = "abstract counterexample did not reproduce on the real routine: " + json.dumps(detail)[:200]
    log(f"  [C19/{case_id}] {name}: {entry['status']} {entry['solver_s']}s")
    res["obligations"].append(entry)


def cond_oracle(info):
    import math
    import jax.numpy as jnp
    fx, dx, tol, M, i_val = info["fx"], info["dx"], info["tol"], info["maxiter"], info["i"]
    got = bool(_cond_real(M, i_val, jnp.asarray(fx), jnp.asarray(dx), tol))
    want = (np.linalg.norm(fx) > tol * math.sqrt(len(fx))) and (i_val < M) and (np.linalg.norm(dx) > tol * math.sqrt(len(dx)))
    return got == bool(want), {"real_cond": got, "documented_rule": bool(want)}


def _norm(dom, comps):
    tot = None
    for cpt in comps:
        sq = dom.mul(cpt, cpt)
        tot = sq if tot is None else tot + sq
    return dom.sqrt(tot)


def _replay_loop(mdl, X0, Mn, Lz, c, Az, q, tol, M, name):
    import jax.numpy as jnp
    import z3
    from probdiffeq import probdiffeq

    def val(v):
        r = mdl.eval(v, model_completion=True)
        try:
            return float(r.numerator_as_long()) / float(r.denominator_as_long())
        except Exception:  # noqa: BLE001
            return float(r.approx(20).numerator_as_long()) / float(r.approx(20).denominator_as_long())
    x0 = np.array([val(v) for v in X0]); m = np.array([val(v) for v in Mn])
    L = np.array([[val(v) for v in row] for row in Lz]); A = np.array([val(v) for v in Az])
    cc, qq, tt = val(c), val(q), val(tol)
    info = {"x0": x0.tolist(), "mean": m.tolist(), "L": L.tolist(), "c": cc, "A": A.tolist(), "q": qq, "tol": tt, "maxiter": M,
            "obligation": name}
    ok, detail = loop_oracle(info)
    info["detail"] = detail
    return (not ok), info


def loop_oracle(info):
    """run the real routine eagerly and test the named obligation numerically"""
    import jax.numpy as jnp
    from probdiffeq import probdiffeq
    x0, m, L = jnp.asarray(info["x0"]), jnp.asarray(info["mean"]), jnp.asarray(info["L"])
    A = jnp.asarray(info["A"]); cc, qq, tol, M = info["c"], info["q"], info["tol"], info["maxiter"]

    def constraint(s):
        return jnp.stack([cc + A @ s + qq * s[0] * s[1]])
    xn, stats = probdiffeq.lstsq_constrained_gauss_newton(maxiter=M, tol=tol)(constraint, x0, m, L)
    it_, fc, fi = int(stats["iters"]), np.asarray(stats["final_constraint"]), np.asarray(stats["final_increment"])
    name = info["obligation"]
    k, D = 1, len(info["x0"])
    nf, nd = float(np.linalg.norm(fc)), float(np.linalg.norm(fi))
    nf0 = float(np.linalg.norm(np.asarray(constraint(x0))))
    detail = {"iters": it_, "final_constraint": fc.tolist(), "final_increment": fi.tolist(), "x": np.asarray(xn).tolist()}
    if not np.all(np.isfinite(np.asarray(xn))):
        return True, dict(detail, note="non-finite run (singular system): outside the claim")
    if name.startswith("0 <= iters"):
        return 0 <= it_ <= M, detail
    if name.startswith("reported residual"):
        return bool(np.allclose(fc, np.asarray(constraint(xn)), rtol=1e-9, atol=1e-12)), detail
    if name.startswith("stopped before"):
        return (it_ >= M) or nf <= tol * np.sqrt(k) * (1 + 1e-9) or nd <= tol * np.sqrt(D) * (1 + 1e-9), detail
    if name.startswith("feasible start"):
        return (nf0 > tol * np.sqrt(k)) or (it_ == 0 and bool(np.all(np.asarray(xn) == np.asarray(x0)))), detail
    if name.startswith("infeasible start"):
        return (nf0 <= tol * np.sqrt(k)) or it_ >= 1, detail
    return True, detail


def _write_replay(replay_dir, case_id, name, info):
    import os
    d = replay_dir or "/verif/evidence/replays/C19"
    os.makedirs(d, exist_ok=True)
    path = os.path.join(d, ("C19__" + case_id + "__" + name).replace("/", "__").replace(" ", "_")[:150] + ".json")
    with open(path, "w") as f:
        json.dump({"case": "C19/" + case_id, "kind": "loop", "info": info}, f, indent=1)
    return path


def _case(case_id, tier):
    kind = case_id.split("/")[0]
    make, goals = {"step": build_step, "map": build_map, "lin": build_lin}[kind](case_id)
    return PCase("C19/" + case_id, make, goals, budget_s=300 if tier == "quick" else 1200)


def run_case(case_id, tier="quick", seed=0, replay_dir=None, log=print):
    if case_id.startswith("loop/") or case_id.startswith("cond/"):
        t0 = time.time()
        res = {"case": "C19/" + case_id, "obligations": [], "status": "ok", "notes": []}
        try:
            (run_loop if case_id.startswith("loop/") else run_cond)(case_id, res, seed, replay_dir, log)
        except Exception as ex:  # noqa: BLE001
            res["status"] = "error"
            res["notes"].append(traceback.format_exc())
            log(f"  [C19/{case_id}] HARNESS ERROR {ex!r}\n{traceback.format_exc()}")
        res["wall_s"] = round(time.time() - t0, 2)
        return res
    return _case(case_id, tier).run(seed=seed, log=log, replay_dir=replay_dir)


def replay(path):
    with open(path) as f:
        data = json.load(f)
    if data.get("kind") == "loop" and data["info"].get("kind_cond"):
        ok, detail = cond_oracle(data["info"])
        print("replay", data["case"], "holds" if ok else "VIOLATED", json.dumps(detail))
        return not ok
    if data.get("kind") == "loop":
        ok, detail = loop_oracle(data["info"])
        print("replay", data["case"], data["info"]["obligation"], "holds" if ok else "VIOLATED", json.dumps(detail)[:400])
        return not ok
    return _case(data["case"].split("/", 1)[1], "quick").replay(path)
