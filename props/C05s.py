"""C05, part S: the real adaptive driver with a scripted solver (shares the C06 machinery).

sets : two executions with checkpoint sets A=(T0,T2) and B=(T0,T1,T2), same error profile -- the k-th executed
       attempt of both runs has the same (t, dt) and the same verdict, and the step count reported at T2 agrees.
chain: inside one execution, consecutive interpolations that are not separated by an attempt are chained through
       the states returned by the previous interpolation (left end = previously interpolated state, right end = the
       step end), and an attempt after an interpolation starts from the step end -- not from the checkpoint.
"""
import json
import os
import re
import time
import traceback
from fractions import Fraction

import numpy as np
import z3

from props import C06


def run_case(case_id, tier="quick", seed=0, replay_dir=None, log=print):
    t0 = time.time()
    res = {"case": "C05/" + case_id, "obligations": [], "status": "ok", "notes": []}
    try:
        kind = case_id.split("/")[0]
        {"sets": _sets, "chain": _chain, "terminal": _terminal}[kind](case_id, res, seed, replay_dir, log)
    except Exception as ex:  # noqa: BLE001
        res["status"] = "error"
        res["notes"].append(traceback.format_exc())
        log(f"  [C05/{case_id}] HARNESS ERROR {ex!r}\n{traceback.format_exc()}")
    res["wall_s"] = round(time.time() - t0, 2)
    return res


def _G(p):
    return C06._and([x for x in p["guard"] if z3.is_expr(x)])


def _arg(p, k):
    from jxs.interp import is_sym
    a = p["args"][k]
    return a[()] if is_sym(a) else z3.RealVal(str(Fraction(float(a))))


def _decide(res, case_id, s, obligations, log, replay=None, prefer=()):
    for name, viol in obligations:
        tt = time.time()
        s.push(); s.add(viol); r = str(s.check())
        models = [s.model()] if r == "sat" else []
        if r == "sat" and prefer:
            # additional witnesses without rejected attempts: step sizes after a rejection go through the controller's power
            # function, which the encoding abstracts, so such witnesses often do not replay; every witness is tried
            for pref in (prefer if isinstance(prefer[0], (list, tuple)) else [prefer]):
                s.push(); s.add(*pref)
                if str(s.check()) == "sat":
                    models.append(s.model())
                s.pop()
        s.pop()
        ob = {"id": f"C05/{case_id}/{name}", "queries": 1 + max(0, len(models) - 1), "solver_s": round(time.time() - tt, 3),
              "nontrivial": True}
        if r == "unsat":
            ob["status"] = "holds"
        elif r == "sat" and replay is not None:
            ok, info = None, {}
            for mdl in models:
                ok, info = replay(mdl, name)
                if ok is False:
                    break
            ob["counterexample"] = info
            ob["status"] = "violated" if ok is False else "inconclusive"
            if ok is False and info.get("path"):
                ob["replay"] = info["path"]
        else:
            ob["status"] = "inconclusive"
            ob["note"] = f"solver: {r}"
        res["obligations"].append(ob)
        log(f"  [C05/{case_id}] {name}: {ob['status']} ({ob['solver_s']}s)")


def _sets(case_id, res, seed, replay_dir, log):
    _, ctrl, clip, sz = case_id.split("/")
    ko, ki = map(int, re.match(r"o(\d+)i(\d+)", sz).groups())
    clip = clip == "clip"
    T0, T1, T2 = z3.Real("T0"), z3.Real("T1"), z3.Real("T2")
    from jxs.zdomain import Z3Domain
    dom = Z3Domain(linearize=True)
    # run A may need up to 2*ko iterations for its single checkpoint to cover what B does in two
    ra = C06.symbolic_run("save_at", ctrl, clip, 1, 2 * ko, ki, seed, T=[T0, T2], dom=dom)
    rb = C06.symbolic_run("save_at", ctrl, clip, 2, ko, ki, seed, T=[T0, T1, T2], dom=dom)
    res["encoded"] = {"runA": ra["encoded"], "runB": rb["encoded"],
                      "eqns_interpreted": ra["encoded"]["eqns_interpreted"] + rb["encoded"]["eqns_interpreted"],
                      "primitives": rb["encoded"]["primitives"]}
    s = z3.Solver(); s.set("timeout", 180000)
    A, apps = C06.base_assumptions([ra, rb], [1, 2])
    s.add(A)
    r0 = str(s.check())
    res["vacuity"] = {"assumptions_satisfiable": r0}
    if r0 != "sat":
        res["status"] = "inconclusive"; res["notes"].append(f"assumptions: {r0}"); return

    def attempts(run):
        st = [p for p in run["it"].probes if p["tag"] == "step"]
        er = [p for p in run["it"].probes if p["tag"] == "err"]
        return [(_G(a), _arg(a, 0), _arg(a, 1), _arg(e, 0)) for a, e in zip(st, er)]
    aa, bb = attempts(ra), attempts(rb)

    def pos(lst, i):
        return z3.Sum([z3.If(lst[k][0], 1, 0) for k in range(i)]) if i else z3.IntVal(0)
    viol = []
    for i, (ga, ta, da, ea) in enumerate(aa):
        for j, (gb, tb, db, eb) in enumerate(bb):
            viol.append(z3.And(ga, gb, pos(aa, i) == pos(bb, j), z3.Or(ta != tb, da != db, ea != eb)))
    na = z3.Sum([z3.If(x[0], 1, 0) for x in aa]); nb = z3.Sum([z3.If(x[0], 1, 0) for x in bb])
    obligations = [("k-th executed attempt is the same (t, dt, verdict) with and without the extra checkpoint", z3.Or(viol)),
                   ("both runs execute the same number of attempts", na != nb),
                   ("step count reported at the common final checkpoint agrees",
                    ra["outs"][1][1] != rb["outs"][1][2])]
    res["states"] = len(aa) + len(bb); res["transitions"] = len(aa) * len(bb)
    _decide(res, case_id, s, obligations, log, replay=lambda m, name: _replay_sets(case_id, m, ra, rb, apps, name, replay_dir))


def _replay_sets(case_id, model, ra, rb, apps, name, replay_dir):
    _, ctrl, clip, sz = case_id.split("/")
    f = C06._frac
    T0, T2 = [f(model, t) for t in ra["T"]]
    T1 = f(model, rb["T"][1])
    safety, fmin, fmax = [f(model, x) for x in ra["params"]]
    base = {"dt0": f(model, ra["dt0"]), "eps": f(model, ra["eps"]), "safety": safety, "fmin": fmin, "fmax": fmax, "x0": 0.0}
    table = {}
    for a in apps:
        t_, d_ = a.children()
        table[(f(model, t_), f(model, d_))] = f(model, a)
    info = {"params": base, "TA": [T0, T2], "TB": [T0, T1, T2], "error_profile": [[k[0], k[1], v] for k, v in table.items()],
            "obligation_name": name, "case": case_id}
    cid = f"save_at/{ctrl}/{clip}/x"
    la, tsa, nsa = C06.concrete_run(cid, {**base, "T": [T0, T2]}, table)
    lb, tsb, nsb = C06.concrete_run(cid, {**base, "T": [T0, T1, T2]}, table)
    sa = [(e["t"], e["dt"], e["err"]) for e in la if e["tag"] == "step"]
    sb = [(e["t"], e["dt"], e["err"]) for e in lb if e["tag"] == "step"]
    info["attempts_A"], info["attempts_B"] = sa[:10], sb[:10]
    bad = (len(sa) != len(sb)) or any(abs(x[0] - y[0]) > 1e-12 or abs(x[1] - y[1]) > 1e-12 for x, y in zip(sa, sb)) \
        or float(nsa[-1]) != float(nsb[-1])
    if bad and replay_dir:
        os.makedirs(replay_dir, exist_ok=True)
        path = os.path.join(replay_dir, f"C05__{case_id.replace('/', '__')}__{name[:40].replace(' ', '_')}.json")
        with open(path, "w") as fh:
            json.dump(info, fh, indent=1)
        info["path"] = path
    return (False if bad else True), info


def _terminal(case_id, res, seed, replay_dir, log):
    """solve_adaptive_terminal_values(t0, t1, dt0, ...) against solve_adaptive_save_at(save_at=[t0, t1], same arguments):
    same attempts, same reported time / step count / state"""
    _, ctrl, clip, sz = case_id.split("/")
    ko, ki = map(int, re.match(r"o(\d+)i(\d+)", sz).groups())
    clip = clip == "clip"
    T0, T1 = z3.Real("T0"), z3.Real("T1")
    from jxs.zdomain import Z3Domain
    dom = Z3Domain(linearize=True)
    ra = C06.symbolic_run("terminal", ctrl, clip, 1, ko, ki, seed, T=[T0, T1], dom=dom)
    rb = C06.symbolic_run("save_at", ctrl, clip, 1, ko, ki, seed, T=[T0, T1], dom=dom)
    res["encoded"] = {"terminal": ra["encoded"], "save_at": rb["encoded"],
                      "eqns_interpreted": ra["encoded"]["eqns_interpreted"] + rb["encoded"]["eqns_interpreted"],
                      "primitives": rb["encoded"]["primitives"]}
    s = z3.Solver(); s.set("timeout", 180000)
    A, apps = C06.base_assumptions([ra, rb], [1, 1])
    s.add(A)
    r0 = str(s.check())
    res["vacuity"] = {"assumptions_satisfiable": r0}
    if r0 != "sat":
        res["status"] = "inconclusive"; res["notes"].append(f"assumptions: {r0}"); return

    def attempts(run):
        st = [p for p in run["it"].probes if p["tag"] == "step"]
        er = [p for p in run["it"].probes if p["tag"] == "err"]
        # (guard, t, dt, verdict, [atol, rtol, damp seen by the error estimate, damp seen by solver.step])
        return [(_G(a), _arg(a, 0), _arg(a, 1), _arg(e, 0), [_arg(e, 3), _arg(e, 4), _arg(e, 5), _arg(a, 4)]) for a, e in zip(st, er)]
    aa, bb = attempts(ra), attempts(rb)

    def pos(lst, i):
        return z3.Sum([z3.If(lst[k][0], 1, 0) for k in range(i)]) if i else z3.IntVal(0)
    viol, viol_args = [], []
    for i, (ga, ta, da, ea, xa) in enumerate(aa):
        for j, (gb, tb, db, eb, xb) in enumerate(bb):
            same = z3.And(ga, gb, pos(aa, i) == pos(bb, j))
            viol.append(z3.And(same, z3.Or(ta != tb, da != db, ea != eb)))
            viol_args.append(z3.And(same, z3.Or([u != v for u, v in zip(xa, xb)])))
    na = z3.Sum([z3.If(x[0], 1, 0) for x in aa]); nb = z3.Sum([z3.If(x[0], 1, 0) for x in bb])

    def sc_(v):
        from jxs.interp import is_sym
        v = v[()] if getattr(v, "shape", None) == () else v
        return v if z3.is_expr(v) else z3.RealVal(str(Fraction(float(v))))
    ta_, na_, xa_ = ra["outs"]; tb_, nb_, xb_ = rb["outs"]
    obligations = [("k-th executed attempt of the terminal-value routine is the save_at routine's (t, dt, verdict)", z3.Or(viol)),
                   ("both routines execute the same number of attempts", na != nb),
                   ("the k-th attempt of both routines sees the caller's atol, rtol and damp", z3.Or(viol_args)),
                   ("terminal-value outputs (t, num_steps, state) = last entry of the save_at outputs",
                    z3.Or(sc_(ta_) != sc_(tb_[-1]), sc_(na_) != sc_(nb_[-1]), sc_(xa_) != sc_(xb_[-1])))]
    res["states"] = len(aa) + len(bb); res["transitions"] = len(aa) * len(bb)
    _decide(res, case_id, s, obligations, log, replay=lambda m, name: _replay_terminal(case_id, m, ra, apps, name, replay_dir))


def _terminal_compare(ctrl, clip, base, table):
    la, tsa, nsa = C06.concrete_run(f"terminal/{ctrl}/{clip}/x", base, table)
    lb, tsb, nsb = C06.concrete_run(f"save_at/{ctrl}/{clip}/x", base, table)
    sa = [(e["t"], e["dt"]) for e in la if e["tag"] == "step"]
    sb = [(e["t"], e["dt"]) for e in lb if e["tag"] == "step"]
    xa = [(e.get("tols"), e.get("damp")) for e in la if e["tag"] == "step"]
    xb = [(e.get("tols"), e.get("damp")) for e in lb if e["tag"] == "step"]
    bad = (len(sa) != len(sb)) or any(abs(x[0] - y[0]) > 1e-12 or abs(x[1] - y[1]) > 1e-12 for x, y in zip(sa, sb)) \
        or float(np.ravel(nsa)[-1]) != float(np.ravel(nsb)[-1]) or abs(float(np.ravel(tsa)[-1]) - float(np.ravel(tsb)[-1])) > 1e-12 \
        or xa != xb
    return bad, sa, sb


def _replay_terminal(case_id, model, ra, apps, name, replay_dir):
    _, ctrl, clip, sz = case_id.split("/")
    f = C06._frac
    T0, T1 = [f(model, t) for t in ra["T"]]
    safety, fmin, fmax = [f(model, x) for x in ra["params"]]
    base = {"dt0": f(model, ra["dt0"]), "eps": f(model, ra["eps"]), "safety": safety, "fmin": fmin, "fmax": fmax, "x0": 0.0,
            "T": [T0, T1]}
    table = {}
    for a in apps:
        t_, d_ = a.children()
        table[(f(model, t_), f(model, d_))] = f(model, a)
    info = {"params": base, "error_profile": [[k[0], k[1], v] for k, v in table.items()], "obligation_name": name, "case": case_id}
    bad, sa, sb = _terminal_compare(ctrl, clip, base, table)
    info["attempts_terminal"], info["attempts_save_at"] = sa[:10], sb[:10]
    if bad and replay_dir:
        os.makedirs(replay_dir, exist_ok=True)
        path = os.path.join(replay_dir, f"C05__{case_id.replace('/', '__')}__{name[:40].replace(' ', '_')}.json")
        with open(path, "w") as fh:
            json.dump(info, fh, indent=1)
        info["path"] = path
    return (False if bad else True), info


def _chain(case_id, res, seed, replay_dir, log):
    _, ctrl, clip, sz = case_id.split("/")
    ko, ki = map(int, re.match(r"o(\d+)i(\d+)", sz).groups())
    clip = clip == "clip"
    run = C06.symbolic_run("save_at", ctrl, clip, 2, ko, ki, seed)
    res["encoded"] = run["encoded"]
    s = z3.Solver(); s.set("timeout", 180000)
    A, apps = C06.base_assumptions([run], [2])
    s.add(A)
    r0 = str(s.check())
    res["vacuity"] = {"assumptions_satisfiable": r0}
    if r0 != "sat":
        res["status"] = "inconclusive"; res["notes"].append(f"assumptions: {r0}"); return
    dom = run["dom"]
    interpx = dom.ufs.get("interpx")
    stepx = dom.ufs.get("stepx")
    ev = [p for p in run["it"].probes if p["tag"] in ("step", "interp", "interp_at")]
    g = [_G(p) for p in ev]
    n = len(ev)
    v_chain, v_resume, reach = [], [], 0
    for i in range(n):
        if ev[i]["tag"] != "interp":
            continue
        ti, fa_t, to_t, fa_x, to_x = [_arg(ev[i], k) for k in range(5)]
        mid_x = interpx(fa_x, to_x, ti)
        for j in range(i + 1, n):
            between = [z3.Not(g[k]) for k in range(i + 1, j)]
            both = C06._and([g[i], g[j]] + between)
            if ev[j]["tag"] in ("interp", "interp_at"):
                tj, fb_t, tb_t, fb_x, tb_x = [_arg(ev[j], k) for k in range(5)]
                v_chain.append(z3.And(both, z3.Or(fb_t != ti, fb_x != mid_x, tb_t != to_t, tb_x != to_x)))
                s.push(); s.add(both); reach += str(s.check()) == "sat"; s.pop()
            else:
                ts_, dt_, xs_, ns_ = [_arg(ev[j], k) for k in range(4)]
                v_resume.append(z3.And(both, z3.Or(ts_ != to_t, xs_ != to_x)))
    res["vacuity"]["chained_interpolation_pairs_reachable"] = reach
    # a step end before, within eps of (either side), or beyond the checkpoint: the checkpoint is closed by exactly one
    # interpolation event (beyond -> interpolate_fwd, within eps -> interpolate_fwd_at_t1, which re-bases the smoother)
    v_cnt = []
    for k in range(2):
        here = [i for i in range(n) if ev[i]["tag"] in ("interp", "interp_at") and (ev[i]["scan"][0] if ev[i]["scan"] else 0) == k]
        cnt = z3.Sum([z3.If(g[i], 1, 0) for i in here]) if here else z3.IntVal(0)
        v_cnt.append(cnt != 1)
    obligations = [("every checkpoint is closed by exactly one interpolation event (also when a step ends within eps of it)",
                    z3.Or(v_cnt)),
                   ("a second checkpoint inside the same step interpolates between the previous checkpoint state and the step end",
                    z3.Or(v_chain) if v_chain else z3.BoolVal(False)),
                   ("stepping resumes from the step end, not from the checkpoint", z3.Or(v_resume) if v_resume else z3.BoolVal(False))]
    res["states"] = n; res["transitions"] = len(v_chain) + len(v_resume)
    if reach == 0:
        res["status"] = "inconclusive"; res["notes"].append("no chained interpolation pair is reachable within the bounds")
    _decide(res, case_id, s, obligations, log, replay=lambda m, name: _replay_chain(case_id, m, run, apps, name, replay_dir),
            prefer=[[a >= 1 for a in apps] + [run["T"][0] + run["dt0"] + run["eps"] >= run["T"][1], run["T"][0] + run["dt0"] < run["T"][1]],
                    [a >= 1 for a in apps]])


def _replay_chain(case_id, model, run, apps, name, replay_dir):
    _, ctrl, clip, sz = case_id.split("/")
    f = C06._frac
    T = [f(model, t) for t in run["T"]]
    safety, fmin, fmax = [f(model, x) for x in run["params"]]
    params = {"T": T, "dt0": f(model, run["dt0"]), "eps": f(model, run["eps"]), "safety": safety, "fmin": fmin,
              "fmax": fmax, "x0": 0.0}
    table = {}
    for a in apps:
        t_, d_ = a.children()
        table[(f(model, t_), f(model, d_))] = f(model, a)
    info = {"params": params, "error_profile": [[k[0], k[1], v] for k, v in table.items()], "obligation_name": name,
            "case": case_id}
    log_, ts, ns = C06.concrete_run(f"save_at/{ctrl}/{clip}/x", params, table)
    info["event_log"] = log_[:14]
    bad = False
    if name.startswith("every checkpoint is closed"):
        n_int = sum(1 for e in log_ if e["tag"] in ("interp", "interp_at"))
        bad = n_int != len(T) - 1
        info["interpolation_events"] = n_int
    evs = [e for e in log_ if e["tag"] in ("step", "interp", "interp_at")]
    for a, b in zip(evs, evs[1:]):
        if a["tag"] == "interp" and b["tag"] in ("interp", "interp_at"):
            if abs(b["a"] - a["t"]) > 1e-12 or abs(b["b"] - a["b"]) > 1e-12:
                bad = True
        if a["tag"] == "interp" and b["tag"] == "step":
            if abs(b["t"] - a["b"]) > 1e-12:
                bad = True
    if bad and replay_dir:
        os.makedirs(replay_dir, exist_ok=True)
        path = os.path.join(replay_dir, f"C05__{case_id.replace('/', '__')}__{name[:40].replace(' ', '_')}.json")
        with open(path, "w") as fh:
            json.dump(info, fh, indent=1)
        info["path"] = path
    return (False if bad else True), info


def replay(path):
    with open(path) as f:
        data = json.load(f)
    print(json.dumps({k: data[k] for k in data if k in ("case", "obligation_name", "params")}, indent=1))
    print("re-running the real driver on the stored parameters ...")
    case_id = data["case"]
    _, ctrl, clip, sz = case_id.split("/")
    table = {(a, b): v for a, b, v in data["error_profile"]}
    if case_id.startswith("terminal"):
        bad, sa, sb = _terminal_compare(ctrl, clip, data["params"], table)
        print("attempts terminal:", sa, "\nattempts save_at:", sb)
        print("VIOLATION reproduced" if bad else "no violation")
        return bad
    if case_id.startswith("sets"):
        base = data["params"]
        la, tsa, nsa = C06.concrete_run(f"save_at/{ctrl}/{clip}/x", {**base, "T": data["TA"]}, table)
        lb, tsb, nsb = C06.concrete_run(f"save_at/{ctrl}/{clip}/x", {**base, "T": data["TB"]}, table)
        sa = [(e["t"], e["dt"]) for e in la if e["tag"] == "step"]; sb = [(e["t"], e["dt"]) for e in lb if e["tag"] == "step"]
        print("attempts A:", sa, "\nattempts B:", sb)
        bad = sa != sb or float(nsa[-1]) != float(nsb[-1])
    else:
        log_, ts, ns = C06.concrete_run(f"save_at/{ctrl}/{clip}/x", data["params"], table)
        evs = [e for e in log_ if e["tag"] in ("step", "interp", "interp_at")]
        bad = False
        if str(data.get("obligation_name", "")).startswith("every checkpoint is closed"):
            bad = sum(1 for e in log_ if e["tag"] in ("interp", "interp_at")) != len(data["params"]["T"]) - 1
        for a, b in zip(evs, evs[1:]):
            if a["tag"] == "interp" and b["tag"] in ("interp", "interp_at") and (abs(b["a"] - a["t"]) > 1e-12 or abs(b["b"] - a["b"]) > 1e-12):
                bad = True
            if a["tag"] == "interp" and b["tag"] == "step" and abs(b["t"] - a["b"]) > 1e-12:
                bad = True
        print(evs)
    if bad:
        print(f"VIOLATION property=C05 replay={path}")
        return 1
    print("counterexample does not reproduce on the current tree")
    return 0
