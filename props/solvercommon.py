"""Solver-level harness pieces shared by C02/C03/C04/C07/C14: symbolic solver states, polynomial
vector fields, and the textbook (covariance-form) EKF / RTS oracle in dense coordinates."""
import copy
import math
from fractions import Fraction

import numpy as np

from jxs.poly import Poly
from jxs import poly as P
from jxs.harness import sym_array, const_array, scalar
from jxs.interp import is_sym
from props import common as cm


# ------------------------------------------------------------------ polymorphic scalar helpers
def upow(h, k):
    """h**k for a unit Poly variable (any rational k) or a float"""
    if isinstance(h, np.ndarray):
        h = h[()]
    if isinstance(h, Poly):
        if h.is_const() and Fraction(k).denominator == 1:
            return Poly.const(Fraction(h.cval()) ** int(k))
        (m, c), = h.t.items()
        assert c == 1
        return Poly({tuple((v, P._norm(Fraction(e) * Fraction(k))) for v, e in m): 1}) if k != 0 else Poly.const(1)
    return float(h) ** float(k)


def sc(x):
    return x[()] if isinstance(x, np.ndarray) and x.ndim == 0 else x


# ------------------------------------------------------------------ vector fields
def field_coeffs(dom, d, order, degree=2, pfx="c", time=True):
    co = {"c": sym_array(dom, pfx + "0", (d,)), "C": sym_array(dom, pfx + "C", (d, d))}
    if time:
        co["e"] = sym_array(dom, pfx + "t", (d,))
    if degree >= 2:
        co["g"] = sym_array(dom, pfx + "g", (d,))
    if order == 2:
        co["D"] = sym_array(dom, pfx + "D", (d, d))
    return co


def field_coeffs_at(dom, d, order, ustar, dustar, tstar, pfx="f", time=True, quad=True, jac="full"):
    """polynomial field (degree 2, explicit time) parametrised so that its value and Jacobians AT THE
    POINT (ustar, dustar, tstar) are plain symbols ft, Ju, Jd -- any other evaluation point gives
    different, point-dependent values (so a wrong linearisation point is visible)."""
    ft = sym_array(dom, pfx + "v", (d,))
    if jac == "full":
        Ju = sym_array(dom, pfx + "Ju", (d, d))
    elif jac == "diag":          # componentwise decoupled field
        Ju = sym_array(dom, pfx + "Ju", (d, d), "diag")
    else:                        # Jacobian = multiple of the identity (needs a field without quadratic part)
        kap = sym_array(dom, pfx + "kap", ())
        Ju = np.empty((d, d), dtype=object)
        for a in range(d):
            for b in range(d):
                Ju[a, b] = kap[()] if a == b else Poly()
        quad = False
    co = {}
    g = sym_array(dom, pfx + "g", (d,)) if quad else None
    e = sym_array(dom, pfx + "t", (d,)) if time else None
    C = Ju.copy()
    if quad:
        for a in range(d):
            C[a, a] = C[a, a] - 2 * g[a] * ustar[a]
    c = ft - C.dot(ustar)
    if quad:
        c = c - g * ustar * ustar
        co["g"] = g
    if time:
        c = c - e * tstar
        co["e"] = e
    if order == 2:
        Jd = sym_array(dom, pfx + "Jd", (d, d))
        c = c - Jd.dot(dustar)
        co["D"] = Jd
    co["c"] = c
    co["C"] = C
    return co


def field_eval(co, u, du, t):
    """f(u, du, t); works on jax arrays, float arrays and object arrays alike"""
    r = co["c"] + co["C"] @ u
    if "e" in co:
        r = r + co["e"] * t
    if "g" in co:
        r = r + co["g"] * u * u
    if "D" in co:
        r = r + co["D"] @ du
    return r


def field_jac(orc, co, u, du, d):
    """(df/du, df/ddu) as d x d arrays"""
    Ju = orc.arr(co["C"]).copy()
    if "g" in co:
        g = orc.arr(co["g"])
        for a in range(d):
            Ju[a, a] = Ju[a, a] + 2 * g[a] * u[a]
    Jd = orc.arr(co["D"]) if "D" in co else None
    return Ju, Jd


def make_ode(co, order):
    from probdiffeq import probdiffeq
    jac = probdiffeq.jacobian_materialize()
    if order == 1:
        return probdiffeq.ode(lambda u, *, t: field_eval(co, u, None, t), jacobian=jac)
    return probdiffeq.ode_order_two(lambda u, du, *, t: field_eval(co, u, du, t), jacobian=jac)


# ------------------------------------------------------------------ configuration
class Cfg:
    def __init__(self, ssm="dense", q=1, d=1, order=1, lin="ts0", calib="none", strategy="filter",
                 damp="sym", degree=2, num_data=1, time=True, statechol="lower", correct=True):
        self.ssm, self.q, self.d, self.order, self.lin, self.calib = ssm, q, d, order, lin, calib
        self.strategy, self.damp, self.degree, self.num_data, self.time = strategy, damp, degree, num_data, time
        self.statechol = statechol
        self.correct = correct
        self.n = q + 1

    def key(self):
        return (f"{self.ssm}/{self.strategy}/{self.calib}/{self.lin}/o{self.order}q{self.q}d{self.d}"
                f"/damp_{self.damp}")


def parse_key(key):
    ssm, strategy, calib, lin, sz, damp = key.split("/")
    import re
    o, q, d = map(int, re.match(r"o(\d+)q(\d+)d(\d+)", sz).groups())
    return Cfg(ssm=ssm, q=q, d=d, order=o, lin=lin, calib=calib, strategy=strategy, damp=damp.split("_")[1])


def make_solver(cfg, co, constraint_init=False):
    from probdiffeq import probdiffeq
    ssm = cm.factory(cfg.ssm)
    vf = make_ode(co, cfg.order)
    con = ssm.constraint_ode_ts0(vf) if cfg.lin == "ts0" else ssm.constraint_ode_ts1(vf)
    strat = {"filter": probdiffeq.strategy_filter, "fixedinterval": probdiffeq.strategy_smoother_fixedinterval,
             "fixedpoint": probdiffeq.strategy_smoother_fixedpoint}[cfg.strategy]()
    kw = {"constraint_init": con} if constraint_init else {}
    if cfg.calib == "none":
        return probdiffeq.solver(strategy=strat, constraint=con, **kw), ssm, con
    if cfg.calib == "mle":
        return probdiffeq.solver_mle(strategy=strat, constraint=con,
                                     correct_asymptotic_underconfidence=cfg.correct, **kw), ssm, con
    relin = cfg.calib == "dynamic_relin"
    return probdiffeq.solver_dynamic(strategy=strat, constraint=con, re_linearize_after_calibration=relin, **kw), ssm, con


def concrete_prior(cfg):
    import jax.numpy as jnp
    ssm = cm.factory(cfg.ssm)
    tc = [jnp.ones((cfg.d,)) * (i + 1) for i in range(cfg.n)]
    return ssm.prior_wiener_integrated(tc)


def sym_prior(dom, cfg, prior, base_scale=None):
    """the library's prior object with its process-noise factor (and base scale) made symbolic.

    The (preconditioned) transition matrix stays the library's own concrete Pascal matrix."""
    p2 = copy.copy(prior)
    n, d = cfg.n, cfg.d
    q1 = sym_array(dom, "q", (n, n), "lower")
    if cfg.ssm == "dense":
        lam = sym_array(dom, "lam", (d,), positive=True) if base_scale is None else base_scale
        Q = np.empty((n * d, n * d), dtype=object)
        for i in range(n):
            for j in range(n):
                for a in range(d):
                    for b in range(d):
                        Q[i * d + a, j * d + b] = q1[i, j] * lam[a] if a == b else Poly()
        p2.Q = Q
        info = {"q1": q1, "lam": lam}
    elif cfg.ssm == "isotropic":
        p2.q_sqrtm = q1
        lam = sym_array(dom, "lam", (), positive=True) if base_scale is None else base_scale
        p2.output_scale = lam
        info = {"q1": q1, "lam": lam}
    else:
        p2.q_sqrtm = q1
        lam = sym_array(dom, "lam", (d,), positive=True) if base_scale is None else base_scale
        p2.output_scale = lam
        info = {"q1": q1, "lam": lam}
    return p2, info


def prior_dense(orc, cfg, prior, info):
    """(A, Q-factor) of the prior in dense, preconditioned coordinates"""
    n, d = cfg.n, cfg.d
    a = np.asarray(prior.A if cfg.ssm != "blockdiag" else prior.a, dtype=float)
    if cfg.ssm == "dense":
        A = orc.arr(a)
    else:
        A = cm.embed_mat(orc, "isotropic", orc.arr(a), d)
    q1 = orc.arr(info["q1"]); lam = orc.arr(info["lam"])
    Q = orc.zeros((n * d, n * d))
    for i in range(n):
        for j in range(n):
            for b in range(d):
                Q[i * d + b, j * d + b] = q1[i, j] * (lam[b] if lam.ndim else sc(lam))
    return A, Q


def sym_state(dom, cfg, solver, prior_sym, statepfx="s"):
    """an arbitrary (symbolic) solver state of the right structure"""
    from probdiffeq._probdiffeq.solvers import ProbabilisticSolution
    from probdiffeq._probdiffeq.estimators_and_losses import MarkovSequence
    prior_c = concrete_prior(cfg)
    st0 = solver.init(t=0.0, u=prior_c, damp=0.0)
    _, Normal = cm.impl(cfg.ssm)
    tf = st0.u.tree_flatten
    m, L = cm.sym_rv(dom, cfg.ssm, cfg.n, cfg.d, statepfx, chol=cfg.statechol)
    u = Normal(m, L, tf)
    t = sym_array(dom, "t0" if statepfx == "s" else statepfx + "t", ())
    info = {"m": m, "L": L, "t": t}
    if cfg.strategy == "filter":
        post = u
    else:
        Cond, _ = cm.impl(cfg.ssm)
        bA, bb, bQ, btl, bto = cm.sym_cond(dom, cfg.ssm, cfg.n, cfg.n, cfg.d,
                                           "bw" if statepfx == "s" else statepfx + "bw", scal="unit")
        bw = Cond(bA, Normal(bb, bQ, tf), to_latent=btl, to_observed=bto)
        post = MarkovSequence(u, bw, reverse=True)
        info["bw"] = (bA, bb, bQ, btl, bto)
    aux = st0.auxiliary
    if cfg.calib == "mle":
        shape = np.shape(st0.auxiliary[1])
        r = sym_array(dom, "run" if statepfx == "s" else statepfx + "run", shape)
        aux = (st0.auxiliary[0], r, float(cfg.num_data))
        info["running"] = r
    oscale = st0.output_scale
    if cfg.calib.startswith("dynamic") and statepfx != "s":
        oscale = sym_array(dom, statepfx + "os", np.shape(st0.output_scale), unit=True)
        info["output_scale"] = oscale
    state = ProbabilisticSolution(t=t, u=u, solution_full=post, output_scale=oscale,
                                  num_steps=st0.num_steps, auxiliary=aux, fun_evals=st0.fun_evals,
                                  prior=prior_sym)
    return state, info


# ------------------------------------------------------------------ textbook oracle (dense coordinates)
def precon(orc, cfg, h):
    n, d = cfg.n, cfg.d
    q = cfg.q
    p = [None] * (n * d); pi = [None] * (n * d)
    for i in range(n):
        k = q - i
        f = math.factorial(k)
        for a in range(d):
            if orc.sym:
                p[i * d + a] = upow(h, k) * Poly.const(Fraction(1, f))
                pi[i * d + a] = upow(h, -k) * Poly.const(f)
            else:
                p[i * d + a] = float(h) ** k / f
                pi[i * d + a] = float(h) ** (-k) * f
    dt = object if orc.sym else float
    return np.array(p, dtype=dt), np.array(pi, dtype=dt)


def transition_dense(orc, cfg, h, A, Q):
    """effective transition over step h: (A_h, Q_h covariance at unit output scale)"""
    p, pi = precon(orc, cfg, h)
    Ah = p[:, None] * A * pi[None, :]
    Qf = p[:, None] * Q
    hh = upow(h, 1) if orc.sym else float(h)
    return Ah, (Qf.dot(Qf.T)) * hh, Qf


def selector(orc, cfg, k):
    n, d = cfg.n, cfg.d
    E = orc.zeros((d, n * d))
    one = Poly.const(1) if orc.sym else 1.0
    for a in range(d):
        E[a, k * d + a] = one
    return E


def linearise_oracle(orc, cfg, co, mpred, t1):
    """H, z for the observation model 0 = H x + (z - H mpred), linearised at mpred"""
    d, k = cfg.d, cfg.order
    co = {kk: orc.arr(v) for kk, v in co.items()}
    E0 = selector(orc, cfg, 0)
    E1 = selector(orc, cfg, 1) if k == 2 else None
    Ek = selector(orc, cfg, k)
    u = E0.dot(mpred)
    du = E1.dot(mpred) if k == 2 else None
    f = field_eval(co, u, du, t1)
    z = Ek.dot(mpred) - f
    if cfg.lin == "ts0":
        return Ek, z
    Ju, Jd = field_jac(orc, co, u, du, d)
    if cfg.ssm == "isotropic":
        def avg(J):
            tr = J[0, 0]
            for a in range(1, d):
                tr = tr + J[a, a]
            tr = tr * (Poly.const(Fraction(1, d)) if orc.sym else 1.0 / d)
            out = orc.zeros((d, d))
            for a in range(d):
                out[a, a] = tr
            return out
        Ju = avg(Ju); Jd = avg(Jd) if Jd is not None else None
    elif cfg.ssm == "blockdiag":
        def dg(J):
            out = orc.zeros((d, d))
            for a in range(d):
                out[a, a] = J[a, a]
            return out
        Ju = dg(Ju); Jd = dg(Jd) if Jd is not None else None
    H = Ek - Ju.dot(E0)
    if Jd is not None:
        H = H - Jd.dot(E1)
    return H, z


def ekf_step(orc, cfg, co, m, Pm, t0, h, damp, A, Q, running=None, naming=True):
    nm = orc.name if naming else (lambda x, label="": x)
    """one textbook EKF step; returns a dict of everything the solver reports"""
    d = cfg.d
    Ah, Qh, Qf = transition_dense(orc, cfg, h, A, Q)
    t1 = t0 + (upow(h, 1) if orc.sym else float(h))
    mp = Ah.dot(m)
    H, z = linearise_oracle(orc, cfg, co, mp, t1)
    R = orc.eye(d) * (damp * damp)
    out = {"t": t1}
    if cfg.calib.startswith("dynamic"):
        S0 = H.dot(Qh).dot(H.T) + R
        if cfg.ssm == "blockdiag":
            s2 = []
            for a in range(d):
                s2.append(orc.name(orc.div(z[a] * z[a], S0[a, a]), "sig2"))
            s2 = np.array(s2, dtype=object if orc.sym else float)
            scale2 = np.tile(s2, cfg.n)              # index i*d + a
            Qh = scale2[:, None] * Qh                # block diagonal in a: scaling rows==cols per dimension
            out["scale2"] = s2
        else:
            W0 = orc.inv(orc.name(S0, "S0"), "S0inv")
            s2 = orc.name(z.dot(W0).dot(z) * (Poly.const(Fraction(1, d)) if orc.sym else 1.0 / d), "sig2")
            Qh = Qh * s2
            out["scale2"] = s2
    Pp = nm(Ah.dot(Pm).dot(Ah.T) + Qh, "Pp")
    S = nm(H.dot(Pp).dot(H.T) + R, "S")
    W = orc.inv(S, "Sinv")
    C = Pp.dot(H.T)
    K = C.dot(W)
    out["mean"] = mp - K.dot(z)
    out["cov"] = Pp - C.dot(W).dot(C.T)      # = Pp - K S K^T, written linearly in S^{-1}
    out["pred_mean"], out["pred_cov"], out["Ah"], out["S"], out["z"], out["W"], out["H"] = mp, Pp, Ah, S, z, W, H
    if cfg.calib == "mle":
        nd = cfg.num_data
        if cfg.ssm == "blockdiag":
            new2 = np.array([orc.div(z[a] * z[a], S[a, a]) for a in range(d)], dtype=object if orc.sym else float)
        else:
            new2 = z.dot(W).dot(z) * (Poly.const(Fraction(1, d)) if orc.sym else 1.0 / d)
        r = orc.arr(running)
        c1 = Poly.const(Fraction(nd, nd + 1)) if orc.sym else nd / (nd + 1)
        c2 = Poly.const(Fraction(1, nd + 1)) if orc.sym else 1 / (nd + 1)
        out["running2"] = r * r * c1 + new2 * c2
    return out
