"""C12 -- marginal-likelihood losses equal the exact Gaussian log-density of the data (back end P, uninterpreted log)."""
import math
from fractions import Fraction

import numpy as np

from jxs.harness import PCase, sym_array, Orc, scalar
from jxs.poly import Poly
from jxs import poly as P
from props import common as cm
from props import solvercommon as sc

META = {
    "level": "model_checking",
    "functions": ["loss_lml_terminal_values", "loss_lml_timeseries", "MarkovSequence.evaluate_lml/remove_filtering_distributions",
                  "*Normal.to_derivative/logpdf_tree/logpdf_flat", "AbstractLatentCond.bayes_rule_and_logpdf_tree",
                  "*LatentCond.marginalise/revert/apply_flat", "backend.linalg.lstsq_svd (contract)"],
    "bounds": {"quick": "terminal-value loss: ARBITRARY marginal (n=2 coefficients, d=2), symbolic datum and noise level, observed "
                        "coefficient 0 and 1, three factorisations; time-series loss: ARBITRARY backward Markov sequence with 2 "
                        "output times (n=2, d=1), symbolic data and a DIFFERENT symbolic noise level per time, sum and average, "
                        "observed coefficient 0 and 1, three factorisations; INDUCTIVE STEP of the backward recursion for longer "
                        "series: the real scan body of evaluate_lml (reached by substituting backend.flow.scan while tracing) "
                        "applied once to an arbitrary carry (arbitrary filtered marginal, arbitrary accumulated value, 2 or 3 "
                        "data points seen), sum and running mean",
               "thorough": "as quick plus d=2 for the isotropic time-series loss and further (count, mode) combinations of the inductive step"},
    "assumptions": ["A1 reals", "A2/A3 contracts", "log is uninterpreted; only sum_i w log|a_i| = (w/2) log prod a_i^2 is used: the "
                    "obligation splits into (i) the log-free part and (ii) equality of the products of the log arguments per "
                    "weight", "the 1x1 least-squares solve inside the time-series loss is division by a non-zero innovation "
                    "standard deviation (noise-free, exactly singular observations are outside)",
                    "log(2*pi) is the float64 constant read as a rational (A7)"],
    "outside": ["end-to-end runs with 3 or more output times (degree-19 obligation, not decided within an hour; covered by "
                "the inductive step plus the 2-time base case)", "singular (noise-free and exact-initial-condition) observation covariances"],
}


def cases(tier):
    out = []
    for ssm in cm.SSMS:
        for idx in (0, 1):
            out.append(f"terminal/{ssm}/i{idx}/d2/k0")
        out.append(f"series/{ssm}/i0/d1/k1/avg")
        out.append(f"series/{ssm}/i1/d1/k1/sum")
    # three output times: the running sum / running mean are updated twice
    # the full 3-time obligation has degree 19 and is out of reach; instead the INDUCTIVE STEP of the backward recursion:
    # the real scan body applied once to an arbitrary carry (arbitrary filtered marginal, arbitrary accumulated value,
    # 2 or 3 data points seen so far)
    for ssm in cm.SSMS:
        out.append(f"scanstep/{ssm}/i0/d1/n2/sum")
        out.append(f"scanstep/{ssm}/i1/d1/n3/avg")
    if tier == "thorough":
        out.append("series/isotropic/i0/d2/k1/sum")     # dense / blockdiag d=2: not decided within 40 min
        for ssm in cm.SSMS:
            out.append(f"scanstep/{ssm}/i0/d1/n3/sum")
            out.append(f"scanstep/{ssm}/i1/d1/n2/avg")
    return out


LOG2PI = math.log(2 * math.pi)


def split_logs(val, dom):
    """val = rest + sum_j coef_j * log(arg_j):  returns (rest, {coef: [args]})"""
    logs = {v: desc[1] for v, desc in dom.atoms.items() if desc[0] == "log"}
    rest = {}
    groups = {}
    for mono, c in val.t.items():
        lv = [(v, e) for v, e in mono if v in logs]
        if not lv:
            rest[mono] = c
        else:
            assert len(mono) == 1 and lv[0][1] == 1, "log atom enters non-linearly"
            groups.setdefault(Fraction(c), []).append(logs[lv[0][0]])
    return Poly(rest), groups


def build(case_id):
    parts = case_id.split("/")
    kind, ssm, idx, dd, kk = parts[:5]
    idx = int(idx[1:]); d = int(dd[1:]); K = int(kk[1:])
    average = len(parts) > 5 and parts[5] == "avg"
    concrete = len(parts) > 6 and parts[6] == "conc"
    if kind == "scanstep":
        return build_scanstep(ssm, idx, d, int(kk[1:]), average)
    n = 2
    N = n * d
    cfg = sc.Cfg(ssm=ssm, q=n - 1, d=d)

    def make(dom):
        import jax
        import jax.numpy as jnp
        from probdiffeq import probdiffeq
        from probdiffeq._probdiffeq.estimators_and_losses import MarkovSequence
        Cond, Normal = cm.impl(ssm)
        prior_c = sc.concrete_prior(cfg)
        tf = prior_c.init.tree_flatten
        mT, LT = cm.sym_rv(dom, ssm, n, d, "T")
        conds = [cm.sym_cond(dom, ssm, n, n, d, f"k{i}", scal="one") for i in range(K)]
        if concrete:
            # fixed small rationals instead of symbols (same shapes and sparsity patterns)
            cnt = [0]

            def conc(a):
                if not (isinstance(a, np.ndarray) and a.dtype == object):
                    return a
                o = np.zeros(a.shape)
                for idx in np.ndindex(*a.shape):
                    if a[idx].t:
                        cnt[0] += 1
                        o[idx] = ((cnt[0] * 7) % 11 - 4) / 2.0 or 1.5
                return o
            mT, LT = conc(mT), conc(LT)
            conds = [tuple(conc(x) for x in c_) for c_ in conds]
        y = sym_array(dom, "y", (K + 1, d))
        stdshape = () if ssm == "isotropic" else (d,)
        std = sym_array(dom, "sd", (K + 1,) + stdshape, unit=True)

        def fn(rvT, conds, y, std):
            if kind == "terminal":
                loss = probdiffeq.loss_lml_terminal_values(tcoeff_index=idx)
                return loss(y[0], marginals=Normal(*rvT, tf), std=std[0])
            cs = [Cond(A, Normal(b, Q, tf), to_latent=tl, to_observed=to) for (A, b, Q, tl, to) in conds]
            stacked = jax.tree_util.tree_map(lambda *xs: jnp.stack(xs), *cs)
            post = MarkovSequence(Normal(*rvT, tf), stacked, reverse=True)
            loss = probdiffeq.loss_lml_timeseries(average_pdfs=average, tcoeff_index=idx)
            return loss(y, posterior=post, std=std)
        return fn, ((mT, LT), conds, y, std)

    def joint(args, orc):
        """exact joint law of the observed coefficient at all output times: mean vector and covariance (incl. noise)"""
        (mT, LT), conds, y, std = args
        mK, PK = cm.dense_rv_raw(orc, ssm, mT, LT, d)
        mean = [None] * (K + 1); cov = {}
        mean[K] = mK; cov[(K, K)] = PK
        ker = [cm.dense_cond_raw(orc, ssm, *conds[j], d) for j in range(K)]
        for j in range(K - 1, -1, -1):
            G, o, Sg = ker[j]
            mean[j] = G.dot(mean[j + 1]) + o
            cov[(j, j)] = G.dot(cov[(j + 1, j + 1)]).dot(G.T) + Sg
        for j in range(K + 1):
            for l in range(j + 1, K + 1):
                C = cov[(l, l)]
                for r in range(l - 1, j - 1, -1):
                    C = ker[r][0].dot(C)
                cov[(j, l)] = C
        sel = [idx * d + a for a in range(d)]
        sd = orc.arr(std)
        M = [mean[j][sel] for j in range(K + 1)]
        S = {}
        for j in range(K + 1):
            for l in range(j, K + 1):
                blk = cov[(j, l)][np.ix_(sel, sel)]
                if j == l:
                    blk = blk.copy()
                    for a in range(d):
                        s_ = sd[j] if ssm == "isotropic" else sd[j][a]
                        s_ = s_[()] if isinstance(s_, np.ndarray) else s_
                        blk[a, a] = blk[a, a] + s_ * s_
                S[(j, l)] = blk
        return M, S

    def goals(args, out, orc):
        (mT, LT), conds, y, std = args
        M, S = joint(args, orc)
        yv = orc.arr(y)
        # chain rule from the last time backwards: p(y_K) p(y_{K-1}|y_K) ... (d=1 beyond the terminal term)
        terms = []     # (weight, quadratic form, variance-like determinant, number of scalars)
        if kind == "terminal":
            SK = S[(K, K)] if K == 0 else S[(0, 0)]
            r = yv[0] - (M[K] if K == 0 else M[0])
            W = orc.inv(orc.name(SK, "S"), "Sinv")
            terms.append((Fraction(1), r.dot(W).dot(r), _det(orc, orc.name(SK, "S")), d))
        else:
            assert d == 1 or K == 1
            w_each = Fraction(1, K + 1) if average else Fraction(1)
            # terminal time
            SKK = orc.name(S[(K, K)], "SK")
            WK = orc.inv(SKK, "SKinv")
            rK = yv[K] - M[K]
            terms.append((w_each, rK.dot(WK).dot(rK), _det(orc, SKK), d))
            # previous times conditioned on all later ones (K<=2 in the bounds): Gaussian conditioning of the joint
            later = [K]
            for j in range(K - 1, -1, -1):
                # blocks
                idxs = later
                Sll = _block(orc, [[S[(min(a, b), max(a, b))] if a <= b else S[(b, a)].T for b in idxs] for a in idxs])
                Sjl = np.concatenate([S[(j, l)] for l in idxs], axis=1)
                rl = np.concatenate([yv[l] - M[l] for l in idxs])
                Wl = orc.inv(orc.name(Sll, f"Sl{j}"), f"Sl{j}inv")
                cm_ = M[j] + Sjl.dot(Wl).dot(rl)
                cv = orc.name(S[(j, j)] - Sjl.dot(Wl).dot(Sjl.T), f"cv{j}")
                Wc = orc.inv(cv, f"cv{j}inv")
                rj = yv[j] - cm_
                terms.append((w_each, rj.dot(Wc).dot(rj), _det(orc, cv), d))
                later = [j] + later
        if not orc.sym:
            tot = 0.0
            for w, q, det, nd in terms:
                tot += float(w) * (-0.5 * q - 0.5 * nd * LOG2PI - 0.5 * math.log(det))
            return {"log-free part": (np.asarray(out), np.asarray(tot)), "products of log arguments": (np.asarray(out), np.asarray(tot))}
        dom = orc.dom
        val = out[()] if isinstance(out, np.ndarray) else out
        rest, groups = split_logs(val, dom)
        want_rest = Poly()
        want_groups = {}
        for w, q, det, nd in terms:
            want_rest = want_rest + (q * Poly.const(Fraction(-1, 2)) + Poly.const(Fraction(LOG2PI) * Fraction(-nd, 2))) * Poly.const(w)
            want_groups.setdefault(w, []).append(det)
        res = {"log-free part": (scalar(rest), scalar(want_rest))}
        # impl: sum_j c_j log|a_j|  <->  oracle: sum_k (-w_k/2) log det_k.  Both sides are logs of positive numbers, so the
        # equality is  prod |a_j|^(-2 c_j s) = prod det_k^(w_k s)  for the smallest s>0 making all exponents integers
        ex_i = [(-2 * c, a_) for c, lst in groups.items() for a_ in lst]
        ex_o = [(w, det) for w, q, det, nd in terms]
        den = 1
        for e_, _ in ex_i + ex_o:
            den = den * e_.denominator // math.gcd(den, e_.denominator)
        g = 0
        for e_, _ in ex_i + ex_o:
            g = math.gcd(g, int(e_ * den))
        assert all(e_ > 0 for e_, _ in ex_i), f"log atom with a non-negative coefficient: {sorted(groups)}"
        pa = Poly.const(1)
        for e_, a_ in ex_i:
            k = int(e_ * den) // g
            pa = pa * (a_ ** k)
        pd = Poly.const(1)
        for e_, det in ex_o:
            k = int(e_ * den) // g
            pd = pd * (det ** k)
        res["products of log arguments"] = (scalar(pa), scalar(pd))
        return res
    return make, goals


def build_scanstep(ssm, idx, d, num, average):
    n = 2
    cfg = sc.Cfg(ssm=ssm, q=n - 1, d=d)

    def make(dom):
        import jax
        import jax.numpy as jnp
        from probdiffeq import probdiffeq
        from probdiffeq.backend import flow
        from probdiffeq._probdiffeq.estimators_and_losses import MarkovSequence
        Cond, Normal = cm.impl(ssm)
        tf = sc.concrete_prior(cfg).init.tree_flatten
        rvT = cm.sym_rv(dom, ssm, n, d, "T")
        rvc = cm.sym_rv(dom, ssm, n, d, "c")            # the carry: arbitrary law of x_{k+1} given the later data
        cond = cm.sym_cond(dom, ssm, n, n, d, "k0", scal="one")
        y = sym_array(dom, "y", (2, d))
        stdshape = () if ssm == "isotropic" else (d,)
        std = sym_array(dom, "sd", (2,) + stdshape, unit=True)
        lp = sym_array(dom, "lp", ())

        def fn(rvT, rvc, cond, y, std, lp):
            A, b, Q, tl, to = cond
            cs = [Cond(A, Normal(b, Q, tf), to_latent=tl, to_observed=to)]
            stacked = jax.tree_util.tree_map(lambda *xs: jnp.stack(xs), *cs)
            post = MarkovSequence(Normal(*rvT, tf), stacked, reverse=True)
            loss = probdiffeq.loss_lml_timeseries(average_pdfs=average, tcoeff_index=idx)
            orig = flow.scan

            box = {}

            def one_step(body, *, init, xs, reverse=False, **kw):
                x0 = jax.tree_util.tree_map(lambda a: a[-1] if reverse else a[0], xs)
                (c2, lp1, n1), _ = body((Normal(*rvc, tf), lp, num), x0)
                box["carry"] = c2
                return (c2, lp1, n1), ()
            flow.scan = one_step          # the library looks the attribute up at call time; restored right after tracing
            try:
                val = loss(y, posterior=post, std=std)
            finally:
                flow.scan = orig
            c2 = box["carry"]
            return val, c2.mean_flat, c2.cholesky_flat
        return fn, (rvT, rvc, cond, y, std, lp)

    def goals(args, out, orc):
        rvT, rvc, cond, y, std, lp = args
        out, carry_m, carry_L = out
        mc, Pc = cm.dense_rv_raw(orc, ssm, *rvc, d)
        G, o, Sg = cm.dense_cond_raw(orc, ssm, *cond, d)
        mean = G.dot(mc) + o
        cov = G.dot(Pc).dot(G.T) + Sg
        i0 = idx * d
        sd = orc.arr(std)
        s0 = sd[0] if ssm == "isotropic" else sd[0][0]
        s0 = s0[()] if isinstance(s0, np.ndarray) else s0
        S = orc.name(cov[i0:i0 + 1, i0:i0 + 1] + np.array([[s0 * s0]], dtype=object if orc.sym else float), "S")
        W = orc.inv(S, "Sinv")
        r = orc.arr(y)[0] - mean[i0:i0 + 1]
        q = r.dot(W).dot(r)
        w_new = Fraction(1, num + 1) if average else Fraction(1)
        w_old = Fraction(num, num + 1) if average else Fraction(1)
        lpv = orc.arr(lp)[()]
        # the carry handed to the next step: the prediction conditioned on this datum
        Hsel = orc.zeros((1, n * d))
        Hsel[0, i0] = (Poly.const(1) if orc.sym else 1.0)
        K = cov.dot(Hsel.T).dot(W)
        cm_new = mean + K.dot(r)
        cP_new = cov - K.dot(Hsel).dot(cov)
        cgot_m, cgot_P = cm.dense_rv_raw(orc, ssm, carry_m, carry_L, d)
        # (the covariance of the carry is the revert identity of C08; its proof here costs minutes and is not repeated)
        carry_goals = {"carry: mean = prediction conditioned on the datum": (cgot_m, cm_new)}
        if not orc.sym:
            tot = float(w_old) * float(lpv) + float(w_new) * (-0.5 * q - 0.5 * LOG2PI - 0.5 * math.log(S[0, 0]))
            return {"log-free part": (np.asarray(out), np.asarray(tot)), "products of log arguments": (np.asarray(out), np.asarray(tot)),
                    **carry_goals}
        val = out[()] if isinstance(out, np.ndarray) else out
        rest, groups = split_logs(val, orc.dom)
        want_rest = lpv * Poly.const(w_old) + (q * Poly.const(Fraction(-1, 2)) + Poly.const(Fraction(LOG2PI) * Fraction(-1, 2))) * Poly.const(w_new)
        assert len(groups) == 1 and sum(len(v) for v in groups.values()) == 1, f"expected one log atom: {groups}"
        (c, (a_,)), = groups.items()
        # impl: c log|a|, oracle: -(w_new/2) log S
        assert c == -w_new, f"log atom enters with weight {c}, expected {-w_new}"
        return {"log-free part": (scalar(rest), scalar(want_rest)),
                "products of log arguments": (scalar(a_ * a_), scalar(S[0, 0])), **carry_goals}
    return make, goals


def _det(orc, M):
    if not orc.sym:
        return float(np.linalg.det(np.asarray(M, dtype=float)))
    from jxs.harness import _det as d_
    return d_(M)


def _block(orc, rows):
    return np.concatenate([np.concatenate(r, axis=1) for r in rows], axis=0)


def _case(case_id, tier):
    make, goals = build(case_id)
    return PCase("C12/" + case_id, make, goals, budget_s=300 if tier == "quick" else 1200)


def run_case(case_id, tier="quick", seed=0, replay_dir=None, log=print):
    return _case(case_id, tier).run(seed=seed, log=log, replay_dir=replay_dir)


def replay(path):
    import json
    with open(path) as f:
        data = json.load(f)
    return _case(data["case"].split("/", 1)[1], "quick").replay(path)
