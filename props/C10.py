"""C10 -- Taylor-coefficient routines return the exact solution derivatives (direct back end)."""
import numpy as np

from jxs.direct import DCase
from jxs.harness import sym_array, scalar
from jxs.poly import Poly
from jxs import poly as P

META = {
    "level": "model_checking",
    "functions": ["jetexpand_ode_padded_scan", "jetexpand_ode_unroll", "jetexpand_ode_via_jvp",
                  "jetexpand_ode_doubling_unroll", "jetexpand_ode_coefficient_increment", "jetexpand_ode_coefficient_double",
                  "_allow_pytree_inits", "problems.ode/ode_order_two", "problems.args_autonomous_and_jet_compatible",
                  "backend.func.jet (jax.experimental.jet)", "backend.func.jvp/linearize"],
    "bounds": {"quick": "polynomial vector fields of total degree <=2 in (u, u', t) with SYMBOLIC coefficients, symbolic "
                        "initial values and initial time; d<=2; ODE order 1 and 2; k<=3 derivatives (doubling: 1-2 doublings); "
                        "flat and dict-pytree states",
               "thorough": "degree <=3, d<=3, k<=5 (doubling: 2 doublings)"},
    "assumptions": ["A1 reals", "A6 polynomial vector fields (every coefficient symbolic, so every polynomial field of the "
                    "stated degree is covered at once)"],
    "outside": ["non-polynomial vector fields", "k above the bound", "jetexpand_residual (Gauss-Newton iteration; its "
                "single step is decided under C19)"],
}

ROUTINES = ("padded_scan", "unroll", "via_jvp", "doubling")


def cases(tier):
    out = []
    ks = (1, 2, 3) if tier == "quick" else (1, 2, 3, 4, 5)
    for r in ("padded_scan", "unroll", "via_jvp"):
        for order in (1, 2):
            for auto in ("auto", "time"):
                for k in ks:
                    d = 2 if (k <= 2 or tier == "thorough") else 1
                    if tier == "quick" and order == 2 and k == 3:
                        d = 1
                    out.append(f"{r}/o{order}/{auto}/k{k}/d{d}/flat")
        out.append(f"{r}/o1/time/k2/d2/tree")
        out.append(f"{r}/o2/time/k2/d2/tree")
    for nd in (1, 2):       # 3 doublings (k=14) is not decided within 40 min
        for auto in ("auto", "time"):
            out.append(f"doubling/o1/{auto}/k{2 ** (nd + 1) - 2}/d{2 if nd < 2 else 1}/flat")
    out.append("doubling/o1/time/k2/d2/tree")
    if tier == "thorough":
        for r in ("padded_scan", "unroll", "via_jvp"):
            out.append(f"{r}/o1/time/k3/d3/flat")
    return out


def parse(case_id):
    r, o, auto, k, d, shape = case_id.split("/")
    return r, int(o[1:]), auto == "time", int(k[1:]), int(d[1:]), shape


def field_coeffs(dom, d, order, time, degree):
    co = {"c": sym_array(dom, "c", (d,)), "C": sym_array(dom, "C", (d, d))}
    co["G"] = sym_array(dom, "G", (d, d, d))       # quadratic u_b u_c (full tensor, symmetric part matters)
    if time:
        co["e"] = sym_array(dom, "e", (d,))
        co["k"] = sym_array(dom, "k", (d,))        # u_a * t
        co["e2"] = sym_array(dom, "e2", (d,))      # t^2
    if order == 2:
        co["D"] = sym_array(dom, "D", (d, d))
        co["m"] = sym_array(dom, "m", (d,))        # u_a * du_a
    if degree >= 3:
        co["c3"] = sym_array(dom, "c3", (d,))      # u_a^3
    return co


def feval(co, u, du, t):
    """works for jax arrays, numpy float arrays and object arrays of Poly"""
    r = co["c"] + co["C"] @ u
    d = len(co["c"])
    quad = [sum(co["G"][a, b, c] * u[b] * u[c] for b in range(d) for c in range(d)) for a in range(d)]
    import jax.numpy as jnp
    if isinstance(u, np.ndarray):
        r = r + np.array(quad, dtype=u.dtype if u.dtype == object else float)
    else:
        r = r + jnp.stack(quad)
    if "e" in co:
        r = r + co["e"] * t + co["k"] * u * t + co["e2"] * t * t
    if "D" in co:
        r = r + co["D"] @ du + co["m"] * u * du
    if "c3" in co:
        r = r + co["c3"] * u * u * u
    return r


def oracle_derivatives(co, u0, du0, t, order, k):
    """exact u, u', ..., u^(order-1+k) at t by the total-derivative recursion on polynomials"""
    d = len(u0)
    u0 = np.array(list(u0), dtype=object)
    du0 = np.array(list(du0), dtype=object) if du0 is not None else None
    F0 = feval(co, u0, du0, t)                 # u^(order)
    uvars = [list(x.vars())[0] for x in u0]
    dvars = [list(x.vars())[0] for x in du0] if order == 2 else []
    (tvar,) = t.vars()

    def Dt(p):
        r = p.diff(tvar)
        if order == 1:
            for b in range(d):
                r = r + p.diff(uvars[b]) * F0[b]
        else:
            for b in range(d):
                r = r + p.diff(uvars[b]) * du0[b]
                r = r + p.diff(dvars[b]) * F0[b]
        return r
    out = [np.array(list(u0), dtype=object)]
    if order == 2:
        out.append(np.array(list(du0), dtype=object))
    cur = np.array(list(F0), dtype=object)
    out.append(cur)
    for _ in range(k - 1):
        cur = np.array([Dt(p) for p in cur], dtype=object)
        out.append(cur)
    return out


def oracle_numeric(co, u0, du0, t, order, k):
    """float replay oracle: the same recursion, via sympy-free numeric differentiation of polynomials:
    evaluate the symbolic oracle at the numbers"""
    raise NotImplementedError


def build(case_id, tier):
    routine, order, time, k, d, shape = parse(case_id)
    degree = 2 if tier == "quick" else 3

    def make(dom):
        from probdiffeq import probdiffeq
        co = field_coeffs(dom, d, order, time, degree)
        u0 = sym_array(dom, "u", (d,))
        du0 = sym_array(dom, "v", (d,)) if order == 2 else None
        t = sym_array(dom, "t", ())

        def fn(co, u0, du0, t):
            import jax.numpy as jnp
            if shape == "tree":
                def pack(x):
                    return {"a": x[:1], "b": x[1:]}

                def unpack(x):
                    return jnp.concatenate([x["a"], x["b"]])
                if order == 1:
                    vf = probdiffeq.ode(lambda y, *, t: pack(feval(co, unpack(y), None, t)))
                    inits = [pack(u0)]
                else:
                    vf = probdiffeq.ode_order_two(lambda y, dy, *, t: pack(feval(co, unpack(y), unpack(dy), t)))
                    inits = [pack(u0), pack(du0)]
            else:
                if order == 1:
                    vf = probdiffeq.ode(lambda y, *, t: feval(co, y, None, t))
                    inits = [u0]
                else:
                    vf = probdiffeq.ode_order_two(lambda y, dy, *, t: feval(co, y, dy, t))
                    inits = [u0, du0]
            if routine == "doubling":
                nd = {2: 1, 6: 2, 14: 3}[k]
                alg = probdiffeq.jetexpand_ode_doubling_unroll(num_doublings=nd)
            else:
                alg = {"padded_scan": probdiffeq.jetexpand_ode_padded_scan, "unroll": probdiffeq.jetexpand_ode_unroll,
                       "via_jvp": probdiffeq.jetexpand_ode_via_jvp}[routine](num=k)
            tc, _ = alg(vf, inits, t=t)
            if shape == "tree":
                tc = [unpack(x) for x in tc]
            return list(tc)
        args = (co, u0, du0 if order == 2 else np.zeros((d,)), t)
        make.sym = (co, u0, du0, t)
        return fn, args

    def goals(args, out, orc):
        co_s, u0_s, du0_s, t_s = make.sym
        want = oracle_derivatives(co_s, list(u0_s), list(du0_s) if order == 2 else None, t_s[()], order, k)
        res = {}
        assert len(out) == len(want), (len(out), len(want))
        if orc.sym:
            for i, (a, b) in enumerate(zip(out, want)):
                res[f"u^({i})"] = (orc.arr(a), b)
            return res
        # float mode: evaluate the exact symbolic oracle at the replay point
        co, u0, du0, t = args
        env = {}

        def bind(sym, val):
            for p, v in zip(np.asarray(sym).reshape(-1), np.asarray(val, dtype=float).reshape(-1)):
                if isinstance(p, Poly) and p.t:
                    (m, c), = p.t.items()
                    env[m[0][0]] = float(v)
        for kk in co_s:
            bind(co_s[kk], co[kk])
        bind(u0_s, u0)
        if order == 2:
            bind(du0_s, du0)
        bind(t_s, t)
        for i, (a, b) in enumerate(zip(out, want)):
            res[f"u^({i})"] = (np.asarray(a, dtype=float), np.array([float(p.eval(env)) for p in b]))
        return res
    return make, goals


def _case(case_id, tier):
    make, goals = build(case_id, tier)
    return DCase("C10/" + case_id, make, goals)


def run_case(case_id, tier="quick", seed=0, replay_dir=None, log=print):
    return _case(case_id, tier).run(seed=seed, log=log, replay_dir=replay_dir)


def replay(path):
    import json
    with open(path) as f:
        data = json.load(f)
    return _case(data["case"].split("/", 1)[1], "quick").replay(path)
