"""C15 -- results do not depend on the pytree structure of the state; permuting components permutes the solution
(back end P, relational: the real code is traced twice in one jaxpr, once per presentation of the same problem)."""
import dataclasses

import numpy as np

from jxs.harness import PCase, sym_array, Orc, scalar
from jxs.poly import Poly
from props import common as cm
from props import solvercommon as sc

META = {
    "level": "model_checking",
    "functions": ["state_space_model_*.prior_wiener_integrated (TreeFlatten classes)", "constraint_ode_ts0/ts1.linearize",
                  "solver/solver_mle/solver_dynamic.init/step/userfriendly_output", "error_residual_std/error_state_std."
                  "estimate_error_norm (contraction rate, reference)", "ivpsolve.solve_fixed_grid", "*Normal.mean/std (unflatten)",
                  "backend.tree.tree_leaves_depth_one/ravel_pytree", "_allow_pytree_inits (via the C10 pytree cases)"],
    "bounds": {"quick": "state presented as the dict pytree {'a': (1,2) array, 'b': scalar} versus the flat (3,) array: one step "
                        "from the SAME arbitrary symbolic state (q=1), all calibration modes, TS0 and TS1, three factorisations; "
                        "both error estimators; a 2-step fixed-grid solve (leading time axis, caller's structure); jet "
                        "initialisation with a pytree state and a time-dependent field (C10 machinery); permutation (swap) of "
                        "the two components of a d=2 problem for the isotropic and block-diagonal models, for the step and for the "
                        "acceptance quantity; two presentations with equal leaf sizes but different leaf shapes solved one "
                        "after the other in ONE process (per-structure caches) (the dense model under permutation is not decided within the budget)",
               "thorough": "nested tuple-in-dict pytree with a rank-3 leaf (structured models)"},
    "assumptions": ["A1 reals", "A2/A3 contracts (the triangularisation of syntactically equal matrices is the same matrix)",
                    "vector fields polynomial with symbolic coefficients (A6)"],
    "outside": ["jit versus eager execution and vmap versus one-at-a-time: both presentations are the SAME jaxpr up to batching, "
                "the difference lies in XLA/floating point (NaN leakage from non-selected branches), which a real-arithmetic "
                "encoding of the jaxpr cannot see -- not applicable to this technique", "adaptive step sequences (C06/C07 "
                "decide the acceptance quantity; its independence of the presentation is the errest case here)"],
}

TREES = {
    "dict": (lambda x: {"a": x[:2].reshape(1, 2), "b": x[2]},
             lambda u: _cat([u["a"].reshape(-1), u["b"].reshape(-1)]), 3),
    "dictT": (lambda x: {"a": x[:2].reshape(2, 1), "b": x[2]},
              lambda u: _cat([u["a"].reshape(-1), u["b"].reshape(-1)]), 3),
    "nested": (lambda x: {"p": (x[0], x[1:3].reshape(1, 2, 1)), "q": x[3:4]},
               lambda u: _cat([u["p"][0].reshape(-1), u["p"][1].reshape(-1), u["q"].reshape(-1)]), 4),
}


def _cat(xs):
    import jax.numpy as jnp
    return jnp.concatenate(xs)


def cases(tier):
    out = []
    for ssm in cm.SSMS:
        for calib, lin in (("none", "ts0"), ("mle", "ts1"), ("dynamic", "ts0")):
            out.append(f"step/{ssm}/{calib}/{lin}/dict")
        out.append(f"errest/{ssm}/res/dict")
        out.append(f"errest/{ssm}/state/dict")
        out.append(f"grid/{ssm}/{"none" if ssm == "dense" else "mle"}/ts0/dict")
    out += ["perm/isotropic/none/ts0", "perm/blockdiag/mle/ts1", "permerr/isotropic/res", "permerr/blockdiag/res"]
    # two problems with the same leaf sizes but different leaf shapes in ONE process (anything cached per structure shows)
    for ssm in cm.SSMS:
        out.append(f"twice/{ssm}/none/ts0/dict+dictT")
    out += ["jet/padded_scan/o1/time/k2/d2/tree", "jet/unroll/o2/time/k2/d2/tree", "jet/via_jvp/o1/time/k2/d2/tree",
            "jet/doubling/o1/time/k2/d2/tree"]
    if tier == "thorough":
        # (the dense model at d=4 / under permutation needs genuine proofs that are not found within 40 min)
        out += ["step/blockdiag/none/ts1/nested", "step/isotropic/mle/ts0/nested", "errest/isotropic/res/nested"]
    return out


def _worlds(cfg, tree):
    """concrete templates of the same problem in both presentations"""
    import jax
    import jax.numpy as jnp
    from probdiffeq import probdiffeq
    to_tree, ravel, d = TREES[tree]
    ssm = cm.factory(cfg.ssm)
    tcf = [jnp.ones((d,)) * (i + 1) for i in range(cfg.n)]
    tct = [to_tree(x) for x in tcf]
    prior_f = ssm.prior_wiener_integrated(tcf)
    prior_t = ssm.prior_wiener_integrated(tct)

    def solvers(co):
        jac = probdiffeq.jacobian_materialize()
        vf_f = probdiffeq.ode(lambda u, *, t: sc.field_eval(co, u, None, t), jacobian=jac)
        vf_t = probdiffeq.ode(lambda u, *, t: to_tree(sc.field_eval(co, ravel(u), None, t)), jacobian=jac)
        res = []
        for vf in (vf_f, vf_t):
            con = ssm.constraint_ode_ts0(vf) if cfg.lin == "ts0" else ssm.constraint_ode_ts1(vf)
            strat = probdiffeq.strategy_filter()
            if cfg.calib == "none":
                s = probdiffeq.solver(strategy=strat, constraint=con)
            elif cfg.calib == "mle":
                s = probdiffeq.solver_mle(strategy=strat, constraint=con)
            else:
                s = probdiffeq.solver_dynamic(strategy=strat, constraint=con)
            res.append((s, con))
        return res
    return prior_f, prior_t, solvers, ravel


def _retree(template, sym):
    """the symbolic object `sym` (flat presentation) re-dressed in the pytree structure of `template`"""
    import jax
    lt = jax.tree_util.tree_leaves(template)
    ls = jax.tree_util.tree_leaves(sym)
    assert len(lt) == len(ls) and all(np.shape(a) == np.shape(b) for a, b in zip(lt, ls)), "presentations differ in leaves"
    return jax.tree_util.tree_unflatten(jax.tree_util.tree_structure(template), ls)


def _leaves_stack(x):
    import jax
    import jax.numpy as jnp
    return [jnp.asarray(a) for a in jax.tree_util.tree_leaves(x)]


def build(case_id):
    parts = case_id.split("/")
    kind, ssm = parts[0], parts[1]
    if kind == "errest":
        est, tree = parts[2], parts[3]
        calib, lin = "none", "ts0"
    else:
        calib, lin, tree = parts[2], parts[3], parts[4]
    d = TREES[tree][2]
    cfg = sc.Cfg(ssm=ssm, q=1, d=d, order=1, lin=lin, calib=calib, strategy="filter", damp="zero")
    n = cfg.n

    def make(dom):
        import jax
        import jax.numpy as jnp
        from probdiffeq import probdiffeq, ivpsolve
        prior_f, prior_t, solvers, ravel = _worlds(cfg, tree)
        co_c = {k: np.ones(s_) for k, s_ in (("c", (d,)), ("C", (d, d)), ("e", (d,)), ("g", (d,)))}
        (solver_fc, _), (solver_tc, _) = solvers(co_c)
        prior_s, pinfo = sc.sym_prior(dom, cfg, prior_f, base_scale=(np.ones(()) if ssm == "isotropic" else np.ones((d,))))
        state_f, sinfo = sc.sym_state(dom, cfg, solver_fc, prior_s)
        st0_t = solver_tc.init(t=0.0, u=prior_t, damp=0.0)
        state_t = _retree(st0_t, state_f)
        h = sym_array(dom, "h", (), unit=True)
        co = {"c": sym_array(dom, "f0", (d,)), "e": sym_array(dom, "ft", (d,)), "C": sym_array(dom, "fC", (d, d)),
              "g": sym_array(dom, "fg", (d,))}
        if lin == "ts1":
            co["g"] = np.zeros((d,))          # affine field keeps the TS1 obligations small; structure is what is compared
        if kind == "step":
            def fn(state_f, state_t, h, co):
                (sf, _), (st, _) = solvers(co)
                of = sf.step(state_f, dt=h, damp=0.0)
                ot = st.step(state_t, dt=h, damp=0.0)
                mf = jnp.stack([jnp.ravel(m) for m in of.u.mean]); mt = jnp.stack([ravel(m) for m in ot.u.mean])
                return (_leaves_stack(of), mf, _std(of.u.std, None)), (_leaves_stack(ot), mt, _std(ot.u.std, ravel))
            return fn, (state_f, state_t, h, co)
        if kind == "errest":
            m2, _ = cm.sym_rv(dom, ssm, n, d, "p")
            # reference max(|u_prev|, |u_new|): case assumption u_prev > u_new > 0 componentwise (the sign cases are C07's)
            from jxs import poly as P
            m1 = sinfo["m"]
            pairs_ = []
            for a in range(d):
                ix = (a,) if ssm == "dense" else ((0, a) if ssm == "isotropic" else (a, 0))
                m1[ix] = dom.input(f"up{a}", positive=True)
                m2[ix] = dom.input(f"un{a}", positive=True)
                dom.assume_sign(m1[ix] - m2[ix], 1)
                pairs_.append((f"up{a}", f"un{a}"))

            def hook(env):
                for a_, b_ in pairs_:
                    if env[a_] == env[b_]:
                        env[a_] = env[a_] + 1
                    if env[a_] < env[b_]:
                        env[a_], env[b_] = env[b_], env[a_]
            dom.env_hook = hook
            t2 = sym_array(dom, "tn", ())
            atol = sym_array(dom, "atol", (), unit=True)
            rtol = sym_array(dom, "rtol", (), unit=True)
            _, Normal = cm.impl(ssm)
            prop_f = dataclasses.replace(state_f, t=t2, u=Normal(m2, sinfo["L"], state_f.u.tree_flatten),
                                         solution_full=Normal(m2, sinfo["L"], state_f.u.tree_flatten))
            prop_t = _retree(st0_t, prop_f)

            def fn(state_f, state_t, prop_f, prop_t, h, atol, rtol, co):
                outs = []
                for (s_, con), prev, prop in zip(solvers(co), (state_f, state_t), (prop_f, prop_t)):
                    kw = dict(constraint=con, re_linearize_before_error=True)
                    e = probdiffeq.error_residual_std(**kw) if est == "res" else probdiffeq.error_state_std(**kw)
                    p, _ = e.estimate_error_norm(e.init_error(), prev, prop, dt=h, atol=atol, rtol=rtol, damp=0.0)
                    outs.append(p)
                return ([outs[0]],), ([outs[1]],)
            return fn, (state_f, state_t, prop_f, prop_t, h, atol, rtol, co)
        if kind == "grid":
            co["g"] = np.zeros((d,))
            # 2 steps of the real fixed-grid driver from the (concrete) prior: structure and leading time axis
            grid = np.empty((3,), dtype=object)
            t0 = sym_array(dom, "t0", ())
            h2 = sym_array(dom, "h2", (), unit=True)
            grid[0] = t0[()]; grid[1] = t0[()] + h[()]; grid[2] = t0[()] + h[()] + h2[()]

            def fn(grid, co):
                outs = []
                for (s_, con), prior in zip(solvers(co), (prior_f, prior_t)):
                    sol = ivpsolve.solve_fixed_grid(solver=s_)(prior, grid=grid)
                    outs.append(sol)
                sf, st = outs
                make.struct = (jax.tree_util.tree_structure(sf.u.mean), jax.tree_util.tree_structure(st.u.mean),
                               [np.shape(a) for a in jax.tree_util.tree_leaves(st.u.mean)],
                               jax.tree_util.tree_structure(st.u.std), [np.shape(a) for a in jax.tree_util.tree_leaves(st.u.std)])
                mf = jnp.stack([m.reshape(3, -1) for m in sf.u.mean])
                mt = jnp.stack([jax.vmap(ravel)(m) for m in st.u.mean])
                return (_leaves_stack(sf), mf, _std(sf.u.std, None, time=3)), (_leaves_stack(st), mt, _std(st.u.std, ravel, time=3))
            return fn, (grid, co)
        raise KeyError(kind)

    def goals(args, out, orc):
        (lf, *restf), (lt, *restt) = out
        res = {}
        assert len(lf) == len(lt), "the two presentations return different numbers of arrays"
        stack_f = np.concatenate([orc.arr(a).reshape(-1) for a in lf]) if lf else orc.zeros((0,))
        stack_t = np.concatenate([orc.arr(a).reshape(-1) for a in lt]) if lt else orc.zeros((0,))
        res["every array of the result (pytree state) = flattened problem"] = (stack_t, stack_f)
        labels = ["means unflattened into the caller's structure = flat means", "standard deviations in the caller's structure = flat ones"]
        for lab, a, b in zip(labels, restt, restf):
            res[lab] = (orc.arr(a), orc.arr(b))
        if kind == "grid" and orc.sym:
            import jax
            to_tree = TREES[tree][0]
            sf, st, shapes, sstd, stdshapes = make.struct
            want = jax.tree_util.tree_structure([to_tree(np.zeros(d))] * n)
            ok = (st == want) and all(s[0] == 3 for s in shapes) and all(s[0] == 3 for s in stdshapes)
            one = orc.arr(np.ones(()))
            res["caller's structure with a leading time axis of the requested length (3)"] = (one * (1 if ok else 0), one)
        return res
    return make, goals


def _std(std, ravel, time=None):
    import jax
    import jax.numpy as jnp
    outs = []
    for s in std:
        if ravel is not None and isinstance(s, dict):
            outs.append(jax.vmap(ravel)(s) if time else ravel(s))
        else:
            outs.append(jnp.reshape(s, (time, -1)) if time else jnp.ravel(s))
    return jnp.stack(outs)


def build_perm(case_id):
    _, ssm, calib, lin = case_id.split("/")
    d = 2
    cfg = sc.Cfg(ssm=ssm, q=1, d=d, order=1, lin=lin, calib=calib, strategy="filter", damp="zero")
    n = cfg.n
    perm = [1, 0]

    def pvec(x, axis=0):
        return np.take(x, perm, axis=axis)

    def make(dom):
        co_c = {k: np.ones(s_) for k, s_ in (("c", (d,)), ("C", (d, d)), ("e", (d,)), ("g", (d,)))}
        solver_c, _, _ = sc.make_solver(cfg, co_c)
        prior_c = sc.concrete_prior(cfg)
        prior_s, pinfo = sc.sym_prior(dom, cfg, prior_c, base_scale=(np.ones(()) if ssm == "isotropic" else np.ones((d,))))
        cfg_full = cfg
        state, sinfo = sc.sym_state(dom, cfg_full, solver_c, prior_s)
        m, L = sinfo["m"], sinfo["L"]
        _, Normal = cm.impl(ssm)
        if ssm == "dense":
            idx = [i * d + perm[a] for i in range(n) for a in range(d)]
            m2, L2 = m[idx], L[idx, :]
        elif ssm == "isotropic":
            m2, L2 = m[:, perm], L
        else:
            m2, L2 = m[perm], L[perm]
        u2 = Normal(m2, L2, state.u.tree_flatten)
        aux2 = state.auxiliary
        if calib == "mle" and ssm == "blockdiag":
            aux2 = (state.auxiliary[0], state.auxiliary[1][perm], state.auxiliary[2])
        state2 = dataclasses.replace(state, u=u2, solution_full=u2, auxiliary=aux2)
        h = sym_array(dom, "h", (), unit=True)
        co = {"c": sym_array(dom, "f0", (d,)), "e": sym_array(dom, "ft", (d,)), "C": sym_array(dom, "fC", (d, d)),
              "g": np.zeros((d,)) if lin == "ts1" else sym_array(dom, "fg", (d,))}
        co2 = {"c": pvec(co["c"]), "e": pvec(co["e"]), "C": pvec(pvec(co["C"], 0), 1), "g": pvec(co["g"])}

        def fn(state, state2, h, co, co2):
            s1, _, _ = sc.make_solver(cfg, co)
            s2, _, _ = sc.make_solver(cfg, co2)
            a = s1.step(state, dt=h, damp=0.0)
            b = s2.step(state2, dt=h, damp=0.0)
            return (a.u, a.output_scale, a.auxiliary), (b.u, b.output_scale, b.auxiliary)
        return fn, (state, state2, h, co, co2)

    def goals(args, out, orc):
        (ua, osa, auxa), (ub, osb, auxb) = out
        ma, Pa = cm.dense_rv(orc, ssm, ua, d)
        mb, Pb = cm.dense_rv(orc, ssm, ub, d)
        idx = [i * d + perm[a] for i in range(n) for a in range(d)]
        res = {"mean of the permuted problem = permuted mean": (mb, ma[idx]),
               "covariance of the permuted problem = permuted covariance": (Pb, Pa[np.ix_(idx, idx)])}
        if calib == "mle":
            ra, rb = orc.arr(auxa[1]), orc.arr(auxb[1])
            if ssm == "blockdiag":
                res["running scale of the permuted problem = permuted scale (squared)"] = (rb * rb, (ra * ra)[perm])
            else:
                res["running scale is invariant (squared)"] = (rb * rb, ra * ra)
        return res
    return make, goals


def build_permerr(case_id):
    """the acceptance quantity of a d=2 problem and of the same problem with its two components swapped"""
    _, ssm, est = case_id.split("/")
    d, perm = 2, [1, 0]
    cfg = sc.Cfg(ssm=ssm, q=1, d=d, order=1, lin="ts0", calib="none", strategy="filter", damp="zero")
    n = cfg.n

    def make(dom):
        from probdiffeq import probdiffeq
        co_c = {k: np.ones(s_) for k, s_ in (("c", (d,)), ("C", (d, d)), ("e", (d,)), ("g", (d,)))}
        solver_c, _, _ = sc.make_solver(cfg, co_c)
        prior_c = sc.concrete_prior(cfg)
        prior_s, pinfo = sc.sym_prior(dom, cfg, prior_c, base_scale=(np.ones(()) if ssm == "isotropic" else np.ones((d,))))
        state, sinfo = sc.sym_state(dom, cfg, solver_c, prior_s)
        _, Normal = cm.impl(ssm)
        m1 = sinfo["m"]
        m2, _ = cm.sym_rv(dom, ssm, n, d, "p")
        pairs_ = []
        for a in range(d):
            ix = (0, a) if ssm == "isotropic" else (a, 0)
            m1[ix] = dom.input(f"up{a}", positive=True)
            m2[ix] = dom.input(f"un{a}", positive=True)
            dom.assume_sign(m1[ix] - m2[ix], 1)
            pairs_.append((f"up{a}", f"un{a}"))

        def hook(env):
            for a_, b_ in pairs_:
                if env[a_] == env[b_]:
                    env[a_] = env[a_] + 1
                if env[a_] < env[b_]:
                    env[a_], env[b_] = env[b_], env[a_]
        dom.env_hook = hook
        t2 = sym_array(dom, "tn", ())
        h = sym_array(dom, "h", (), unit=True)
        atol = sym_array(dom, "atol", (), unit=True)
        rtol = sym_array(dom, "rtol", (), unit=True)
        L = sinfo["L"]

        def pm(m):
            return m[:, perm] if ssm == "isotropic" else m[perm]

        def pL(L_):
            return L_ if ssm == "isotropic" else L_[perm]
        prop = dataclasses.replace(state, t=t2, u=Normal(m2, L, state.u.tree_flatten), solution_full=Normal(m2, L, state.u.tree_flatten))
        u1p = Normal(pm(m1), pL(L), state.u.tree_flatten)
        u2p = Normal(pm(m2), pL(L), state.u.tree_flatten)
        state_p = dataclasses.replace(state, u=u1p, solution_full=u1p)
        prop_p = dataclasses.replace(prop, u=u2p, solution_full=u2p)
        co = {"c": sym_array(dom, "f0", (d,)), "e": sym_array(dom, "ft", (d,)), "C": sym_array(dom, "fC", (d, d)),
              "g": sym_array(dom, "fg", (d,))}
        co2 = {"c": co["c"][perm], "e": co["e"][perm], "C": co["C"][perm][:, perm], "g": co["g"][perm]}

        def fn(state, prop, state_p, prop_p, h, atol, rtol, co, co2):
            outs = []
            for st, pr, c_ in ((state, prop, co), (state_p, prop_p, co2)):
                _, _, con = sc.make_solver(cfg, c_)
                e = probdiffeq.error_residual_std(constraint=con, re_linearize_before_error=True)
                p, _ = e.estimate_error_norm(e.init_error(), st, pr, dt=h, atol=atol, rtol=rtol, damp=0.0)
                outs.append(p)
            return outs[0], outs[1]
        return fn, (state, prop, state_p, prop_p, h, atol, rtol, co, co2)

    def goals(args, out, orc):
        a, b = out
        if orc.sym:
            # x**(-1/rate) is an uninterpreted power: equality of the power atoms' arguments and exponents
            dom = orc.dom
            pa = [dom.atoms.get(v) for v in orc.arr(a)[()].vars() if dom.atoms.get(v) and dom.atoms[v][0] == "pow"]
            pb = [dom.atoms.get(v) for v in orc.arr(b)[()].vars() if dom.atoms.get(v) and dom.atoms[v][0] == "pow"]
            if len(pa) == 1 and len(pb) == 1:
                return {"acceptance quantity of the permuted problem = original (argument of the power)": (scalar(pb[0][1]), scalar(pa[0][1])),
                        "acceptance quantity of the permuted problem = original (exponent)": (
                            scalar(pb[0][2]), scalar(pa[0][2]))}
        return {"acceptance quantity of the permuted problem = original (argument of the power)": (orc.arr(b), orc.arr(a)),
                "acceptance quantity of the permuted problem = original (exponent)": (orc.arr(b), orc.arr(a))}
    return make, goals


def build_twice(case_id):
    """the same step for two presentations with equal leaf SIZES but different leaf SHAPES, one after the other in one
    process; the second must come back in ITS caller's structure and with the flat problem's numbers"""
    _, ssm, calib, lin, trees = case_id.split("/")
    ta, tb = trees.split("+")
    cfg = sc.Cfg(ssm=ssm, q=1, d=3, order=1, lin=lin, calib=calib, strategy="filter", damp="zero")
    d = 3

    def make(dom):
        import jax
        import jax.numpy as jnp
        co_c = {k: np.ones(s_) for k, s_ in (("c", (d,)), ("C", (d, d)), ("e", (d,)), ("g", (d,)))}
        worlds = {t: _worlds(cfg, t) for t in (ta, tb)}
        prior_f = worlds[ta][0]
        (solver_fc, _), _ = worlds[ta][2](co_c)
        prior_s, pinfo = sc.sym_prior(dom, cfg, prior_f, base_scale=(np.ones(()) if ssm == "isotropic" else np.ones((d,))))
        state_f, sinfo = sc.sym_state(dom, cfg, solver_fc, prior_s)
        states = {}
        for t in (ta, tb):
            (_, _), (solver_tc, _) = worlds[t][2](co_c)
            st0 = solver_tc.init(t=0.0, u=worlds[t][1], damp=0.0)
            states[t] = _retree(st0, state_f)
        h = sym_array(dom, "h", (), unit=True)
        co = {"c": sym_array(dom, "f0", (d,)), "e": sym_array(dom, "ft", (d,)), "C": sym_array(dom, "fC", (d, d)),
              "g": sym_array(dom, "fg", (d,))}

        def fn(state_f, state_a, state_b, h, co):
            (sf, _), (sa, _) = worlds[ta][2](co)
            (_, _), (sb, _) = worlds[tb][2](co)
            of = sf.step(state_f, dt=h, damp=0.0)
            oa = sa.step(state_a, dt=h, damp=0.0)          # first presentation (fills anything cached per structure)
            ob = sb.step(state_b, dt=h, damp=0.0)          # second presentation: same sizes, different shapes
            make.shapes = ([np.shape(x) for x in jax.tree_util.tree_leaves(ob.u.mean)],
                           [np.shape(x) for x in jax.tree_util.tree_leaves([TREES[tb][0](np.zeros(d))] * cfg.n)])
            mf = jnp.stack([jnp.ravel(m) for m in of.u.mean])
            mb = jnp.stack([TREES[tb][1](m) for m in ob.u.mean])
            ma = jnp.stack([TREES[ta][1](m) for m in oa.u.mean])
            return mf, ma, mb
        return fn, (state_f, states[ta], states[tb], h, co)

    def goals(args, out, orc):
        mf, ma, mb = out
        res = {"first presentation = flat means": (orc.arr(ma), orc.arr(mf)),
               "second presentation (other leaf shapes) = flat means": (orc.arr(mb), orc.arr(mf))}
        got, want = make.shapes       # set while tracing AND when the real function is re-run for a replay
        one = orc.arr(np.ones(()))
        res["second presentation comes back in its own leaf shapes"] = (one * (1 if got == want else 0), one)
        return res
    return make, goals


def _case(case_id, tier):
    kind = case_id.split("/")[0]
    make, goals = {"perm": build_perm, "permerr": build_permerr, "twice": build_twice}.get(kind, build)(case_id)
    return PCase("C15/" + case_id, make, goals, budget_s=300 if tier == "quick" else 1200)


def run_case(case_id, tier="quick", seed=0, replay_dir=None, log=print):
    if case_id.startswith("jet/"):
        from props import C10
        r = C10.run_case(case_id.split("/", 1)[1], tier=tier, seed=seed, replay_dir=replay_dir, log=log)
        r["case"] = "C15/" + case_id
        for o in r.get("obligations", []):
            o["id"] = o["id"].replace("C10/", "C15/jet/", 1)
        return r
    return _case(case_id, tier).run(seed=seed, log=log, replay_dir=replay_dir)


def replay(path):
    import json
    with open(path) as f:
        data = json.load(f)
    cid = data["case"].split("/", 1)[1]
    if data["case"].startswith("C10/") or cid.startswith("jet/"):
        from props import C10
        return C10.replay(path)
    return _case(cid, "quick").replay(path)
