"""C02 -- the filter posterior equals the exact Gaussian posterior of the linearised model (back end P)."""
import numpy as np
from fractions import Fraction

from jxs.harness import PCase, sym_array, Orc, scalar
from jxs.poly import Poly
from props import common as cm
from props import solvercommon as sc

META = {
    "level": "model_checking",
    "functions": [
        "solver/solver_mle/solver_dynamic.init/.step/.userfriendly_output", "strategy_filter.predict/apply_updates/finalize",
        "{Dense,Isotropic,BlockDiag}OdeTs0.linearize", "{Dense,Isotropic,BlockDiag}Residual.linearize",
        "jacobian_materialize.materialize_dense/calculate_trace_along_d/calculate_diagonal_along_d",
        "problems.ode/ode_order_two/residual_from_ode", "*WienerIntegrated.transition", "utilities.preconditioner_taylor",
        "*LatentCond.marginalise/revert/apply_flat", "AbstractLatentCond.bayes_rule_tree/"
        "bayes_rule_and_residual_whitened_rms_tree", "cholesky_util.revert_conditional/sum_of_sqrtm_factors",
        "ivpsolve.solve_fixed_grid",
    ],
    "bounds": {"quick": "one step from an ARBITRARY state (symbolic mean, lower-triangular Cholesky factor, prior "
                        "noise factor, base scale, time, step h>0, damping, polynomial vector field of degree 2 with "
                        "symbolic coefficients incl. explicit time): q=1, d=1 all 3 ssm x 3 calibrations x TS0/TS1, "
                        "first and second order ODEs; d=2 for TS0; 2-step solve_fixed_grid end to end; solver.init with an "
                        "initial-constraint update from an arbitrary initial distribution (posterior, solution_full, MLE "
                        "bookkeeping), all 3 ssm x MLE/dynamic/uncalibrated",
               "thorough": "additionally q=2, d=2 for TS1, more calibration/damping combinations"},
    "assumptions": ["A1 reals", "A2 QR contract", "A3 pivots non-zero (innovation covariance nonsingular)",
                    "A5 one step from an arbitrary state + init => all grids by induction (stated, not machine-checked)",
                    "A6 vector fields: polynomials of degree <=2 in (u,u',t) with symbolic coefficients",
                    "prior given by its (preconditioned) transition matrix (the library's concrete Pascal matrix) and "
                    "an arbitrary symbolic lower-triangular noise factor; IWP exactness itself is C09"],
    "outside": ["floating point (high order / tiny steps)", "q>2, d>2", "exponential priors (structurally covered by the "
                "symbolic noise factor; their transition is C09)", "Monte-Carlo Jacobian handlers"],
}


def cases(tier):
    out = []
    for ssm in cm.SSMS:
        for calib in ("none", "mle", "dynamic"):
            for lin in ("ts0", "ts1"):
                if calib == "dynamic" and lin == "ts1" and tier == "quick":
                    continue    # minutes per case: thorough tier
                out.append(f"step/{ssm}/filter/{calib}/{lin}/o1q1d1/damp_sym")
        out.append(f"step/{ssm}/filter/none/ts0/o2q2d1/damp_sym")
        out.append(f"step/{ssm}/filter/none/ts1/o2q2d1/damp_zero")
        if ssm != "dense" or tier == "thorough":      # dense d=2 with a generic 4x4 factor: minutes (thorough tier)
            out.append(f"step/{ssm}/filter/none/ts0/o1q1d2/damp_zero")
        out.append(f"step/{ssm}/filter/dynamic_relin/{'ts0' if tier == 'quick' else 'ts1'}/o1q1d1/damp_zero")
    for ssm in cm.SSMS:
        out.append(f"grid2/{ssm}/filter/none/ts0/o1q1d1/damp_zero")
        out.append(f"grid2/{ssm}/filter/mle/ts1/o1q1d1/damp_zero")
        out.append(f"grid2/{ssm}/filter/dynamic/ts0/o1q1d{1 if ssm == 'dense' else 2}/damp_sym")
    # initialisation with an initial-constraint update (the update must reach state.u and the MLE bookkeeping)
    for ssm in cm.SSMS:
        out.append(f"init/{ssm}/filter/mle/ts0/o1q1d1/damp_sym")
        out.append(f"init/{ssm}/filter/dynamic/ts1/o1q1d1/damp_sym")
    out.append("init/dense/filter/none/ts0/o2q2d1/damp_sym")
    for ssm in cm.SSMS:
        out.append(f"initexact/{ssm}/filter/none/ts1/o1q1d1/damp_zero")
    for ssm in cm.SSMS:
        out.append(f"initexact/{ssm}/filter/mle/ts0/o1q1d1/damp_zero")      # known finding: NaN running scale
    if tier == "thorough":
        for ssm in cm.SSMS:
            if ssm != "dense":      # dense d=2 TS1 (generic 4x4 factor, state-dependent Jacobian): not decided within 40 min
                out.append(f"step/{ssm}/filter/none/ts1/o1q1d2/damp_zero")
            out.append(f"step/{ssm}/filter/mle/ts0/o1q1d2/damp_zero")
            out.append(f"step/{ssm}/filter/none/ts0/o1q2d1/damp_sym")
            out.append(f"step/{ssm}/filter/mle/ts1/o2q2d1/damp_zero")
    return out


def build_step(key, num_data=1):
    cfg = sc.parse_key(key)
    cfg.num_data = num_data

    def make(dom):
        d = cfg.d
        co_c = {k: np.ones(s_) for k, s_ in (("c", (d,)), ("C", (d, d)), ("e", (d,)), ("g", (d,)), ("D", (d, d)))
                if k != "D" or cfg.order == 2}
        solver_t, ssm, con = sc.make_solver(cfg, co_c)
        prior_c = sc.concrete_prior(cfg)
        prior_s, pinfo = sc.sym_prior(dom, cfg, prior_c)
        state, sinfo = sc.sym_state(dom, cfg, solver_t, prior_s)
        h = sym_array(dom, "h", (), unit=True)
        damp = sym_array(dom, "damp", ()) if cfg.damp == "sym" else np.zeros(())
        # the field is parametrised by its value/Jacobian at the correct linearisation point
        orc0 = Orc(dom)
        A0, Q0 = sc.prior_dense(orc0, cfg, prior_c, pinfo)
        Ah0, _, _ = sc.transition_dense(orc0, cfg, h[()], A0, Q0)
        mp0 = Ah0.dot(cm.embed_vec(orc0, cfg.ssm, sinfo["m"], d))
        ustar = sc.selector(orc0, cfg, 0).dot(mp0)
        dustar = sc.selector(orc0, cfg, 1).dot(mp0) if cfg.order == 2 else None
        co = sc.field_coeffs_at(dom, d, cfg.order, ustar, dustar, sinfo["t"][()] + h[()])

        def fn(state, h, damp, co):
            solver, _, _ = sc.make_solver(cfg, co)
            return solver.step(state, dt=h, damp=damp)
        make.info = (cfg, prior_c)
        extras = {"q1": pinfo["q1"], "lam": pinfo["lam"], "m": sinfo["m"], "L": sinfo["L"], "t": sinfo["t"]}
        if "running" in sinfo:
            extras["running"] = sinfo["running"]
        return (lambda state, h, damp, co, extras: fn(state, h, damp, co)), (state, h, damp, co, extras)

    def goals(args, out, orc):
        state, h, damp, co, sinfo = args
        cfg_, prior_c = make.info
        pinfo = sinfo
        d = cfg.d
        A, Q = sc.prior_dense(orc, cfg, prior_c, pinfo)
        m, Pm = cm.dense_rv_raw(orc, cfg.ssm, sinfo["m"], sinfo["L"], d)
        t0 = sc.sc(orc.arr(sinfo["t"]))
        hh = sc.sc(orc.arr(h)); dd = sc.sc(orc.arr(damp))
        run = sinfo.get("running")
        import os
        ref = sc.ekf_step(orc, cfg, co, m, Pm, t0, hh, dd, A, Q, running=run, naming=os.environ.get("NAMING","1")=="1")
        mo, Po = cm.dense_rv(orc, cfg.ssm, out.u, d)
        res = {"t": (orc.arr(out.t), scalar(ref["t"]) if orc.sym else np.asarray(ref["t"])),
               "mean": (mo, ref["mean"]), "cov": (Po, ref["cov"]),
               "num_steps": (orc.arr(out.num_steps), orc.arr(np.asarray(state.num_steps) + 1))}
        if cfg.strategy == "filter":
            m2, P2 = cm.dense_rv(orc, cfg.ssm, out.solution_full, d)
            res["posterior==u"] = (np.concatenate([m2, P2.reshape(-1)]), np.concatenate([mo, Po.reshape(-1)]))
        if cfg.calib == "mle":
            r = orc.arr(out.auxiliary[1])
            res["mle_running^2"] = (r * r, orc.arr(ref["running2"]))
            res["num_data"] = (orc.arr(out.auxiliary[2]), orc.arr(np.asarray(cfg.num_data + 1.0)))
        if cfg.calib.startswith("dynamic"):
            s = orc.arr(out.output_scale)
            s2 = ref["scale2"]
            res["dynamic_scale^2"] = (s * s, s2 if isinstance(s2, np.ndarray) else (scalar(s2) if orc.sym else np.asarray(s2)))
        else:
            res["output_scale"] = (orc.arr(out.output_scale), orc.arr(np.ones(np.shape(out.output_scale))))
        return res
    return make, goals


def build_init(key, exact=False):
    """solver.init with an initial-constraint update: the returned state is the exact conditioning of the initial
    distribution on the linearised constraint; MLE bookkeeping counts the update as one datum"""
    cfg = sc.parse_key(key)
    d, n = cfg.d, cfg.n

    def make(dom):
        co = sc.field_coeffs(dom, d, cfg.order, degree=2)
        prior_c = sc.concrete_prior(cfg)
        prior_s, pinfo = sc.sym_prior(dom, cfg, prior_c)
        _, Normal = cm.impl(cfg.ssm)
        m0, L0 = cm.sym_rv(dom, cfg.ssm, n, d, "i")
        if exact:
            # exactly known initial Taylor coefficients (the library's default) and no damping: the innovation of the
            # initial update is exactly singular
            L0 = np.zeros(np.shape(L0))
        prior_s.init = Normal(m0, L0, prior_c.init.tree_flatten)
        t0 = sym_array(dom, "t0", ())
        damp = sym_array(dom, "damp", ()) if cfg.damp == "sym" else np.zeros(())

        def fn(prior, t0, damp, co, extras):
            solver, _, _ = sc.make_solver(cfg, co, constraint_init=True)
            s = solver.init(t=t0, u=prior, damp=damp)
            return s.u, s.solution_full, s.auxiliary, s.output_scale, s.t, s.num_steps
        return fn, (prior_s, t0, damp, co, {"m0": m0, "L0": L0})

    def goals(args, out, orc):
        prior, t0, damp, co, ex = args
        u, full, aux, oscale, t, nst = out
        m, P = cm.dense_rv_raw(orc, cfg.ssm, ex["m0"], ex["L0"], d)
        if exact:
            mo, Po = cm.dense_rv(orc, cfg.ssm, u, d)
            mf, Pf = cm.dense_rv(orc, cfg.ssm, full, d)
            return {"exact initial state: the initial update leaves the mean unchanged": (mo, m),
                    "exact initial state: covariance stays zero": (Po, orc.zeros(Po.shape)),
                    "exact initial state: solution_full carries the same marginal": (np.concatenate([mf, Pf.reshape(-1)]),
                                                                                     np.concatenate([m, orc.zeros(Pf.shape).reshape(-1)]))}
        tt = sc.sc(orc.arr(t0)); dd = sc.sc(orc.arr(damp))
        H, z = sc.linearise_oracle(orc, cfg, co, m, tt)
        S = orc.name(H.dot(P).dot(H.T) + orc.eye(d) * (dd * dd), "Si")
        W = orc.inv(S, "Siinv")
        K = P.dot(H.T).dot(W)
        mo, Po = cm.dense_rv(orc, cfg.ssm, u, d)
        mf, Pf = cm.dense_rv(orc, cfg.ssm, full, d)
        res = {"init: mean = initial mean conditioned on the linearised constraint": (mo, m - K.dot(z)),
               "init: cov = conditioned covariance": (Po, P - K.dot(H).dot(P)),
               "init: solution_full carries the same marginal (mean)": (mf, mo),
               "init: solution_full carries the same marginal (cov)": (Pf, Po),
               "init: time": (orc.arr(t), orc.arr(t0)), "init: num_steps = 0": (orc.arr(np.asarray(nst, dtype=float)), orc.zeros(())),
               "init: output scale one": (orc.arr(oscale), orc.arr(np.ones(np.shape(oscale))))}
        if cfg.calib == "mle":
            run = orc.arr(aux[1])
            dfrac = Poly.const(Fraction(1, d)) if orc.sym else 1.0 / d
            want = z.dot(W).dot(z) * dfrac
            r2 = np.asarray(run * run, dtype=object if orc.sym else float).reshape(-1)
            res["init: running MLE scale^2 = whitened residual of the initial update"] = (
                r2, np.array([want] * int(r2.size), dtype=object if orc.sym else float))
            res["init: the initial update counts as one datum"] = (orc.arr(np.asarray(aux[2], dtype=float)), orc.arr(np.ones(())))
        return res
    return make, goals


def build_grid(key, nsteps=2, init="inexact", correct=True):
    """solve_fixed_grid end to end == init followed by the solver's own steps, stacked, at the right
    times (relational: both sides are the real code in one trace; the step itself is decided by the
    one-step obligations, so this closes the induction 'init + step => all grids' for the driver)."""
    cfg = sc.parse_key(key)
    cfg.correct = correct
    d, n = cfg.d, cfg.n

    def make(dom):
        from probdiffeq import ivpsolve
        co = sc.field_coeffs(dom, d, cfg.order, degree=2)
        prior_c = sc.concrete_prior(cfg)
        prior_s, pinfo = sc.sym_prior(dom, cfg, prior_c)
        _, Normal = cm.impl(cfg.ssm)
        m0, _ = cm.sym_rv(dom, cfg.ssm, n, d, "i")
        ms, cs = cm.rv_shapes(cfg.ssm, n, d)
        L0 = sym_array(dom, "iL", cs, "diag") if init == "inexact" else np.zeros(cs)
        prior_s.init = Normal(m0, L0, prior_c.init.tree_flatten)
        t0 = sym_array(dom, "t0", ())
        hs = [sym_array(dom, f"h{i + 1}", (), unit=True) for i in range(nsteps)]
        grid = np.empty((nsteps + 1,), dtype=object)
        acc = t0[()]
        grid[0] = acc
        for i in range(nsteps):
            acc = acc + hs[i][()]
            grid[i + 1] = acc
        damp = sym_array(dom, "damp", ()) if cfg.damp == "sym" else np.zeros(())

        def fn(prior, grid, damp, co, hs):
            solver, _, _ = sc.make_solver(cfg, co)
            sol = ivpsolve.solve_fixed_grid(solver=solver)(prior, grid=grid, damp=damp)
            s = solver.init(t=grid[0], u=prior, damp=damp)
            states = [s]
            for i in range(nsteps):
                s = solver.step(s, dt=hs[i], damp=damp)
                states.append(s)
            aux = [st.auxiliary for st in states]
            return (sol.t, sol.u, sol.output_scale, sol.num_steps), [(st.t, st.u, st.output_scale) for st in states], aux
        return fn, (prior_s, grid, damp, co, hs)

    def goals(args, out, orc):
        (ts, u, oscale, nst), states, aux = out
        N = nsteps
        res = {}
        um = orc.arr(u.mean_flat); uc = orc.arr(u.cholesky_flat)
        # calibration applied by userfriendly_output (independent statement of the documented rule)
        if cfg.calib == "mle":
            run = orc.arr(aux[-1][1])
            import math
            if orc.sym:
                sN = orc.dom.sqrt_const(N) if cfg.correct else Poly.const(1)
                scale = run * orc.dom.div(Poly.const(1), sN)
            else:
                scale = run / (math.sqrt(N) if cfg.correct else 1.0)
            scale = orc.arr(scale)
        else:
            scale = None
        for i in range(N + 1):
            st_t, st_u, st_os = states[i]
            res[f"mean[{i}]"] = (um[i], orc.arr(st_u.mean_flat))
            ci = orc.arr(st_u.cholesky_flat)
            if scale is not None:
                sc_ = scale.reshape(scale.shape + (1,) * (ci.ndim - scale.ndim)) if scale.ndim else scale
                ci = ci * sc_
            res[f"chol[{i}]"] = (uc[i], ci)
        tt = np.array([sc.sc(orc.arr(st[0])) for st in states], dtype=object if orc.sym else float)
        res["t"] = (orc.arr(ts), tt)
        res["num_steps"] = (orc.arr(nst), orc.arr(np.arange(1, N + 1)))
        osc = orc.arr(oscale)
        if cfg.calib == "mle":
            want = np.stack([scale] * osc.shape[0])
        elif cfg.calib.startswith("dynamic"):
            want = np.stack([orc.arr(st[2]) for st in states])
        else:
            want = orc.arr(np.ones(np.shape(oscale)))
        res["output_scale"] = (osc, want)
        return res
    return make, goals


def _case(case_id, tier):
    kind, key = case_id.split("/", 1)
    if kind == "step":
        make, goals = build_step(key)
    elif kind == "grid2":
        make, goals = build_grid(key, nsteps=2)
    elif kind == "init":
        make, goals = build_init(key)
    elif kind == "initexact":
        make, goals = build_init(key, exact=True)
    else:
        raise KeyError(kind)
    return PCase("C02/" + case_id, make, goals, budget_s=300 if tier == "quick" else 1200)


def run_case(case_id, tier="quick", seed=0, replay_dir=None, log=print):
    return _case(case_id, tier).run(seed=seed, log=log, replay_dir=replay_dir)


def replay(path):
    import json
    with open(path) as f:
        data = json.load(f)
    case_id = data["case"].split("/", 1)[1]
    case = _case(case_id, "quick")
    return case.replay(path)
