"""C06 -- adaptive step control is safe for every accept/reject history (back end S).

The REAL driver (solve_adaptive_save_at / RejectionLoop / controllers) is traced with a scripted
solver and error estimator whose answers are uninterpreted functions; the jaxpr is executed over z3
terms with bounded unrolling of the two while loops; every clause of the property is an assertion
over the recorded probes, decided by z3 for ALL error profiles, checkpoints, dt0, eps and controller
parameters within the unrolling bounds.
"""
import itertools
import json
import os
import time
import traceback
from fractions import Fraction
from typing import Any, NamedTuple

import numpy as np
import z3

META = {
    "level": "model_checking",
    "functions": ["ivpsolve.solve_adaptive_save_at (solve/advance)", "ivpsolve.solve_adaptive_terminal_values",
                  "RejectionLoop.init/loop/step/step_init_loopstate/step_attempt/step_extract_timestep_state/"
                  "interp_skip/interp_beyond_t1/interp_at_t1", "control_integral.init/apply",
                  "control_proportional_integral.init/apply", "backend.flow.scan/while_loop/cond/switch"],
    "bounds": {"quick": "2 checkpoints after t0; <=2 loop iterations per checkpoint (outer while), <=3 attempts per rejection "
                        "loop (i.e. <=2 consecutive rejections); integral and PI controller; clip on/off; all symbolic: "
                        "checkpoint times, dt0>0, eps>0, error profile ERR(t,dt)>0 uninterpreted; controller parameters concrete",
               "thorough": "3 checkpoints, <=3 iterations per checkpoint, <=4 attempts"},
    "assumptions": ["time, step sizes and tolerances are reals (no rounding)",
                    "unwinding ASSUMPTION: at most the stated number of consecutive rejections / accepted steps per "
                    "checkpoint (paths exceeding the bound are excluded, and reported as such)",
                    "error estimate is a deterministic positive function of (t, dt) -- arbitrary otherwise",
                    "x**c for symbolic x is an uninterpreted function with: POW(x)>0, POW(x)<1 iff x<1, POW(1)=1 (c>0)",
                    "products/quotients of two symbolic terms are uninterpreted functions with sign and monotone-bound axioms "
                    "instantiated on the occurring terms (sound abstraction: every real execution satisfies them)",
                    "controller parameters are concrete: (safety, factor_min, factor_max) = (0.95, 0.2, 10) for even seeds, "
                    "(0.5, 0.5, 2) for odd seeds",
                    "the solver's step/interpolation results are uninterpreted functions of their arguments"],
    "outside": ["floating-point time arithmetic", "more checkpoints / longer histories than the bounds",
                "the probabilistic solver behind the protocol (C02-C05)"],
}


class St(NamedTuple):
    t: Any
    x: Any
    num_steps: Any


def make_solver():
    from jxs.markers import UF, PROBE
    from probdiffeq._probdiffeq.utilities import InterpResult
    import jax.numpy as jnp

    class StubSolver:
        is_suitable_for_save_at = True
        is_suitable_for_save_every_step = True

        def init(self, t, u, *, damp):
            return St(t, u, jnp.asarray(0.0))

        def step(self, state, *, dt, damp):
            t, dt_, x, ns, _dmp = PROBE("step", state.t, dt, state.x, state.num_steps, damp)
            return St(t + dt_, UF("stepx", x, t, dt_), ns + 1.0)

        def interpolate_fwd(self, *, t, interp_from, interp_to):
            t, a, b, xa, xb = PROBE("interp", t, interp_from.t, interp_to.t, interp_from.x, interp_to.x)
            mid = St(t, UF("interpx", interp_from.x, interp_to.x, t), interp_to.num_steps)
            return mid, InterpResult(step_from=interp_to, interp_from=mid)

        def interpolate_fwd_at_t1(self, *, t, interp_from, interp_to):
            t, a, b, xa, xb = PROBE("interp_at", t, interp_from.t, interp_to.t, interp_from.x, interp_to.x)
            return interp_to, InterpResult(step_from=interp_to, interp_from=interp_to)

        def userfriendly_output(self, *, solution0, solution, solution1):
            return St(jnp.concatenate([solution0.t[None], solution.t]), solution.x,
                      jnp.concatenate([solution0.num_steps[None], solution.num_steps]))

    class StubError:
        # a stateful estimator (as with re-linearisation and Monte-Carlo Jacobians): the state it is handed and the state
        # it hands back are observed
        def init_error(self):
            return jnp.asarray(0.0)

        def estimate_error_norm(self, state, previous, proposed, *, dt, atol, rtol, damp):
            e = UF("errpow", previous.t, dt)
            new_state = UF("errstate", state, previous.t, dt)
            (e, _t, _dt, _a, _r, _d, _si, _so) = PROBE("err", e, previous.t, dt, atol, rtol, damp, state, new_state)
            return e, new_state
    return StubSolver(), StubError()


# tolerances / damping handed to the drivers: three different values, so that a dropped or swapped argument is visible
ATOL, RTOL, DAMP = 1e-3, 2e-3, 0.25


def make_control(kind, params):
    """the REAL controller, wrapped only to record what it is given and what it answers"""
    from probdiffeq import ivpsolve
    from jxs.markers import PROBE
    base = ivpsolve.control_integral if kind == "i" else ivpsolve.control_proportional_integral

    class Probed(base):
        def apply(self, dt, state, /, *, error_power):
            out_dt, out_state = super().apply(dt, state, error_power=error_power)
            mem_in = state if kind == "pi" else 0.0
            mem_out = out_state if kind == "pi" else 0.0
            (_a, _b, out_dt, _m0, _m1) = PROBE("ctrl", dt, error_power, out_dt, mem_in, mem_out)
            return out_dt, out_state
    return Probed(**params)


def cases(tier):
    out = []
    for ctrl in ("i", "pi"):
        for clip in ("clip", "noclip"):
            out.append(f"save_at/{ctrl}/{clip}/c2o2i3")
    out.append("terminal/i/clip/c1o2i3")
    if tier == "thorough":
        for ctrl in ("i", "pi"):
            for clip in ("clip", "noclip"):
                out.append(f"save_at/{ctrl}/{clip}/c3o3i3")
                out.append(f"save_at/{ctrl}/{clip}/c2o2i4")
    return out


def run_case(case_id, tier="quick", seed=0, replay_dir=None, log=print):
    t0 = time.time()
    res = {"case": "C06/" + case_id, "obligations": [], "status": "ok", "notes": []}
    try:
        _run(case_id, res, seed, replay_dir, log)
    except Exception as ex:  # noqa: BLE001
        res["status"] = "error"
        res["notes"].append(traceback.format_exc())
        log(f"  [C06/{case_id}] HARNESS ERROR {ex!r}\n{traceback.format_exc()}")
    res["wall_s"] = round(time.time() - t0, 2)
    return res


def _and(xs):
    xs = [x for x in xs if not z3.is_true(x)]
    if not xs:
        return z3.BoolVal(True)
    return z3.And(xs) if len(xs) > 1 else xs[0]


def symbolic_run(routine, ctrl, clip, nc, ko, ki, seed, T=None, dom=None):
    """trace the real driver with the scripted solver and execute the jaxpr over z3 terms"""
    import jax
    import jax.numpy as jnp
    from probdiffeq import ivpsolve
    from jxs.interp import Interp, is_sym
    from jxs.zdomain import Z3Domain, zarr, zvec
    from jxs import markers
    from jxs.trace import count_eqns
    solver, error = make_solver()

    def fn(x0, save_at, dt0, eps, safety, fmin, fmax):
        params = dict(safety=safety, factor_min=fmin, factor_max=fmax)
        control = make_control(ctrl, params)
        if routine == "save_at":
            solve = ivpsolve.solve_adaptive_save_at(solver=solver, error=error, control=control, clip_dt=clip)
            sol = solve(x0, save_at=save_at, atol=ATOL, rtol=RTOL, dt0=dt0, eps=eps, damp=DAMP)
        else:
            solve = ivpsolve.solve_adaptive_terminal_values(solver=solver, error=error, control=control, clip_dt=clip)
            sol = solve(x0, t0=save_at[0], t1=save_at[1], atol=ATOL, rtol=RTOL, dt0=dt0, eps=eps, damp=DAMP)
        return sol.t, sol.num_steps, sol.x
    ex = (0.5, jnp.linspace(0.0, 1.0, nc + 1), 0.1, 1e-8, 0.9, 0.2, 10.0)
    closed = jax.make_jaxpr(fn)(*ex)
    dom = dom or Z3Domain(linearize=True)
    it = Interp(dom, while_bound=[ko, ki])
    markers.install(it)
    T = T or [z3.Real(f"T{i}") for i in range(nc + 1)]
    dt0, eps, x0 = z3.Real("dt0"), z3.Real("eps"), z3.Real("x0")
    PARAMS = {0: (Fraction(19, 20), Fraction(1, 5), Fraction(10)), 1: (Fraction(1, 2), Fraction(1, 2), Fraction(2))}[seed % 2]
    safety, fmin, fmax = [z3.RealVal(str(v)) for v in PARAMS]
    tt = time.time()
    outs = it.eval(closed.jaxpr, closed.consts, [zarr(x0), zvec(T), zarr(dt0), zarr(eps), zarr(safety), zarr(fmin), zarr(fmax)])
    enc = {"jaxpr_eqns": count_eqns(closed.jaxpr), "eqns_interpreted": it.n_eqns,
           "primitives": dict(sorted(it.prims_seen.items())), "probes": len(it.probes),
           "unwinding_conditions": len(it.unwinding), "interp_s": round(time.time() - tt, 2)}
    return {"it": it, "dom": dom, "outs": outs, "T": T, "dt0": dt0, "eps": eps, "x0": x0,
            "params": (safety, fmin, fmax), "encoded": enc}


def base_assumptions(runs, nc_list):
    """assumptions shared by all obligations: positivity, ordered checkpoints, UF axioms, unwinding"""
    from jxs.interp import is_sym
    r0 = runs[0]
    dom = r0["dom"]
    dt0, eps = r0["dt0"], r0["eps"]
    safety, fmin, fmax = r0["params"]
    A = [dt0 > 0, eps > 0]
    seenT = set()
    for r in runs:
        T = r["T"]
        for i in range(len(T) - 1):
            key = (T[i].get_id(), T[i + 1].get_id())
            if key not in seenT:
                seenT.add(key)
                A.append(T[i + 1] - T[i] > 2 * eps)
    seen = set()
    apps = []

    def collect(e):
        if e.get_id() in seen:
            return
        seen.add(e.get_id())
        if z3.is_app(e):
            if e.decl().name() == "errpow":
                apps.append(e)
            for c in e.children():
                collect(c)
    for r in runs:
        for p in r["it"].probes:
            for g in p["guard"]:
                if z3.is_expr(g):
                    collect(g)
            for a in p["args"]:
                if is_sym(a):
                    collect(a[()])
    for a in apps:
        A.append(a > 0)
    for (q, arg, rr) in dom.pow_apps:
        A += [z3.Implies(arg > 0, rr > 0), z3.Implies(z3.And(arg > 0, arg < 1), rr < 1),
              z3.Implies(arg >= 1, rr >= 1), z3.Implies(arg == 1, rr == 1)]
    consts = [z3.RealVal(1), fmin, fmax, safety]
    for (a, b, rr) in dom.mul_apps:
        A += [z3.Implies(z3.And(a > 0, b > 0), rr > 0)]
        for c in consts:
            A += [z3.Implies(z3.And(b > 0, a <= c), rr <= c * b), z3.Implies(z3.And(b > 0, a >= c), rr >= c * b),
                  z3.Implies(z3.And(b > 0, a < c), rr < c * b), z3.Implies(z3.And(b > 0, a > c), rr > c * b),
                  z3.Implies(z3.And(a > 0, b <= c), rr <= c * a), z3.Implies(z3.And(a > 0, b >= c), rr >= c * a),
                  z3.Implies(z3.And(a > 0, b < c), rr < c * a), z3.Implies(z3.And(a > 0, b > c), rr > c * a)]
    for (a, b, rr) in dom.div_apps:
        A += [z3.Implies(z3.And(a > 0, b > 0), rr > 0), z3.Implies(z3.And(b > 0, a < b), rr < 1),
              z3.Implies(z3.And(b > 0, a >= b), rr >= 1), z3.Implies(z3.And(b > 0, a == b), rr == 1)]
    A += dom.side
    for r in runs:
        for u in r["it"].unwinding:
            g = _and([x for x in u["guard"] if z3.is_expr(x)])
            A.append(z3.Not(z3.And(g, u["residual"])))
    return A, apps


def _run(case_id, res, seed, replay_dir, log):
    import re
    from jxs.interp import is_sym
    routine, ctrl, clip, sz = case_id.split("/")
    nc, ko, ki = map(int, re.match(r"c(\d+)o(\d+)i(\d+)", sz).groups())
    clip = clip == "clip"
    run = symbolic_run(routine, ctrl, clip, nc, ko, ki, seed)
    it, dom, T = run["it"], run["dom"], run["T"]
    dt0, eps, x0 = run["dt0"], run["eps"], run["x0"]
    safety, fmin, fmax = run["params"]
    ts_out, ns_out, _x_out = run["outs"]
    res["encoded"] = run["encoded"]
    s = z3.Solver()
    s.set("timeout", 120000)
    A, apps = base_assumptions([run], [nc])
    probes = it.probes
    s.add(A)
    r0 = str(s.check())
    res["vacuity"] = {"assumptions_satisfiable": r0}
    if r0 != "sat":
        res["status"] = "inconclusive"
        res["notes"].append(f"assumptions not satisfiable: {r0}")
        return
    _rest(case_id, res, seed, replay_dir, log, run, s, apps, routine, ctrl, clip, nc)


def _rest(case_id, res, seed, replay_dir, log, run, s, apps, routine, ctrl, clip, nc):
    from jxs.interp import is_sym
    it, dom, T = run["it"], run["dom"], run["T"]
    dt0, eps, x0 = run["dt0"], run["eps"], run["x0"]
    safety, fmin, fmax = run["params"]
    ts_out, ns_out, _x_out = run["outs"]
    probes = it.probes

    def G(p):
        return _and([x for x in p["guard"] if z3.is_expr(x)])

    def arg(p, k):
        a = p["args"][k]
        return a[()] if is_sym(a) else z3.RealVal(str(Fraction(float(a))))
    steps = [p for p in probes if p["tag"] == "step"]
    errs = [p for p in probes if p["tag"] == "err"]
    ctrls = [p for p in probes if p["tag"] == "ctrl"]
    interps = [p for p in probes if p["tag"] in ("interp", "interp_at")]
    if len(ctrls) != len(steps) and len(steps) == len(errs):
        # the scripted controller handed to the routine is not the one the encoded driver applies: structural
        # discrepancy in the encoding itself; replay on the real driver and report it instead of reasoning further
        name = "the caller's controller is applied once per attempt"
        params = {"T": [0.0, 1.0] if nc == 1 else [0.0, 0.5, 1.0], "dt0": 0.1, "eps": 1e-8,
                  "safety": float(Fraction(str(safety))), "fmin": float(Fraction(str(fmin))), "fmax": float(Fraction(str(fmax))),
                  "x0": 0.0}
        ob = {"id": f"C06/{case_id}/{name}", "queries": 0, "nontrivial": True,
              "note": f"{len(steps)} attempt sites but {len(ctrls)} controller applications in the traced driver"}
        info = {"params": params, "error_profile": [], "obligation_name": name}
        try:
            log_, ts, ns = concrete_run(case_id, params, {})
            bad = check_log(case_id, params, log_, ts, ns)
            info["replay_violations"] = [str(b)[:300] for b in bad[:5]]
            hit = any(b[0] == name for b in bad)
        except Exception as ex:  # noqa: BLE001
            info["replay_error"] = repr(ex); hit = False
        ob["counterexample"] = info
        ob["status"] = "violated" if hit else "inconclusive"
        if hit and replay_dir:
            os.makedirs(replay_dir, exist_ok=True)
            path = os.path.join(replay_dir, (ob["id"].replace("/", "__").replace(" ", "_"))[:150] + ".json")
            with open(path, "w") as f:
                json.dump({"case": case_id, "obligation": ob["id"], **info}, f, indent=1)
            ob["replay"] = path
        res["obligations"].append(ob)
        log(f"  [C06/{case_id}] {name}: {ob['status']}")
        return
    assert len(steps) == len(errs) == len(ctrls), (len(steps), len(errs), len(ctrls))
    n = len(steps)
    res["encoded"].update({"attempt_sites": n, "interp_sites": len(interps)})
    obligations = []

    def oblige(name, viol, nontrivial=True):
        """viol: formula describing a violation; holds iff assumptions AND viol is unsat"""
        obligations.append((name, viol))
    g = [G(p) for p in steps]
    tq = [arg(p, 0) for p in steps]; dq = [arg(p, 1) for p in steps]; xq = [arg(p, 2) for p in steps]
    nsq = [arg(p, 3) for p in steps]
    eq_ = [arg(p, 0) for p in errs]
    cin = [arg(p, 0) for p in ctrls]; cerr = [arg(p, 1) for p in ctrls]; cout = [arg(p, 2) for p in ctrls]
    m0 = [arg(p, 3) for p in ctrls]; m1 = [arg(p, 4) for p in ctrls]
    target = [T[p["scan"][0] + 1] if p["scan"] else T[1] for p in steps]
    # reachability twins
    reach = 0
    for i in range(n):
        s.push(); s.add(g[i]); reach += str(s.check()) == "sat"; s.pop()
    res["vacuity"]["attempt_sites_reachable"] = f"{reach}/{n}"
    # consecutive attempts at run time: j is the next executed attempt after i
    succ_viol_rej, succ_viol_acc, succ_viol_state, succ_viol_est = [], [], [], []
    est_in = [arg(p, 6) for p in errs]; est_out = [arg(p, 7) for p in errs]
    stepx = dom.ufs.get("stepx")
    for i in range(n):
        for j in range(i + 1, n):
            between = [z3.Not(g[k]) for k in range(i + 1, j)]
            both = _and([g[i], g[j]] + between)
            rej = eq_[i] < 1
            succ_viol_rej.append(z3.And(both, rej, z3.Or(tq[j] != tq[i], dq[j] >= dq[i], xq[j] != xq[i], nsq[j] != nsq[i])))
            succ_viol_acc.append(z3.And(both, z3.Not(rej), z3.Or(tq[j] != tq[i] + dq[i], nsq[j] != nsq[i] + 1)))
            succ_viol_state.append(z3.And(both, z3.Not(rej), xq[j] != stepx(xq[i], tq[i], dq[i])))
            succ_viol_est.append(z3.And(both, z3.Or(z3.And(rej, est_in[j] != est_in[i]), z3.And(z3.Not(rej), est_in[j] != est_out[i]))))
    oblige("rejected attempt: state untouched and next attempt strictly smaller", z3.Or(succ_viol_rej) if succ_viol_rej else z3.BoolVal(False))
    oblige("time and step count advance only through accepted attempts (err>=1)", z3.Or(succ_viol_acc) if succ_viol_acc else z3.BoolVal(False))
    oblige("accepted attempt promotes exactly the proposed state", z3.Or(succ_viol_state) if succ_viol_state else z3.BoolVal(False))
    oblige("rejected attempt leaves the error estimator's state untouched; an accepted one promotes the state it produced",
           z3.Or(succ_viol_est) if succ_viol_est else z3.BoolVal(False))
    oblige("every attempted step is positive", z3.Or([z3.And(g[i], dq[i] <= 0) for i in range(n)]))
    oblige("controller is applied to the attempted step and the estimate of that attempt",
           z3.Or([z3.And(g[i], z3.Or(cin[i] != dq[i], cerr[i] != eq_[i])) for i in range(n)]))
    oblige("proposal = attempted step x factor in [factor_min, factor_max]",
           z3.Or([z3.And(g[i], z3.Or(cout[i] < fmin * dq[i], cout[i] > fmax * dq[i])) for i in range(n)]))
    if ctrl == "pi":
        oblige("PI memory changes only on acceptance",
               z3.Or([z3.And(g[i], z3.Or(z3.And(eq_[i] < 1, m1[i] != m0[i]), z3.And(eq_[i] >= 1, m1[i] != eq_[i]))) for i in range(n)]))
    if clip:
        oblige("with clipping no attempt ends beyond the next checkpoint",
               z3.Or([z3.And(g[i], tq[i] + dq[i] > target[i]) for i in range(n)]))
    oblige("attempts only start before the checkpoint (t + eps < t_next)",
           z3.Or([z3.And(g[i], tq[i] + eps >= target[i]) for i in range(n)]))
    if interps:
        oblige("every interpolation lies between the two states it interpolates",
               z3.Or([z3.And(G(p), z3.Or(arg(p, 0) < arg(p, 1) - (eps if p["tag"] == "interp_at" else 0),
                                         arg(p, 0) > arg(p, 2) + (eps if p["tag"] == "interp_at" else 0))) for p in interps]))
    # outputs
    ts = [ts_out[k] if is_sym(ts_out) else z3.RealVal(str(Fraction(float(ts_out[k])))) for k in range(ts_out.shape[0])] \
        if np.ndim(ts_out) else [ts_out[()]]
    if routine == "save_at":
        oblige("every requested time is reported once, in order, within eps",
               z3.Or([z3.Or(ts[k] - T[k] > eps, T[k] - ts[k] > eps) for k in range(nc + 1)]))
        nso = [ns_out[k] for k in range(ns_out.shape[0])]
        # number of accepted attempts whose scan index <= k-1 (i.e. before output k)
        viol = []
        for k in range(1, nc + 1):
            cnt = z3.Sum([z3.If(z3.And(g[i], eq_[i] >= 1), z3.RealVal(1), z3.RealVal(0))
                          for i in range(n) if (steps[i]["scan"][0] if steps[i]["scan"] else 0) <= k - 1])
            viol.append(nso[k] != cnt)
        viol.append(nso[0] != 0)
        oblige("reported step count = number of accepted attempts so far", z3.Or(viol))
    else:
        oblige("terminal value is reported at t1 within eps", z3.Or(ts[0] - T[1] > eps, T[1] - ts[0] > eps))
    # ---------------- decide
    for name, viol in obligations:
        tt = time.time()
        s.push()
        s.add(viol)
        r = str(s.check())
        models = [s.model()] if r == "sat" else []
        if r == "sat" and n:
            # further witnesses that are more likely to replay: the controller's power function is abstracted, so prefer
            # error values for which the real controller is clipped (tiny / huge first error) or no attempt is rejected
            prefs = [[g[0], eq_[0] <= z3.RealVal("1e-9")], [g[0], eq_[0] >= z3.RealVal("1e9")], [a >= 1 for a in apps]]
            for pref in prefs:
                s.push(); s.add(*pref)
                if str(s.check()) == "sat":
                    models.append(s.model())
                s.pop()
        s.pop()
        ob = {"id": f"C06/{case_id}/{name}", "queries": 1 + max(0, len(models) - 1), "solver_s": round(time.time() - tt, 3),
              "nontrivial": True}
        if r == "unsat":
            ob["status"] = "holds"
        elif r == "sat":
            ok, info = None, {}
            for model in models:
                ok, info = replay_model(case_id, model, T, dt0, eps, safety, fmin, fmax, x0, dom, apps, name)
                if ok is False:
                    break
            ob["counterexample"] = info
            if ok is False:
                ob["status"] = "violated"
                if replay_dir:
                    os.makedirs(replay_dir, exist_ok=True)
                    path = os.path.join(replay_dir, (ob["id"].replace("/", "__").replace(" ", "_"))[:150] + ".json")
                    with open(path, "w") as f:
                        json.dump({"case": case_id, "obligation": ob["id"], **info}, f, indent=1)
                    ob["replay"] = path
            else:
                ob["status"] = "inconclusive"
                ob["note"] = "solver model did not reproduce on the real driver"
        else:
            ob["status"] = "inconclusive"
            ob["note"] = f"solver: {r}"
        res["obligations"].append(ob)
        log(f"  [C06/{case_id}] {name}: {ob['status']} ({ob['solver_s']}s)")
    res["states"] = n + len(interps)
    res["transitions"] = n * (n - 1) // 2


# ---------------------------------------------------------------------------------------- replay
def _frac(m, x):
    v = m.eval(x, model_completion=True)
    try:
        return float(Fraction(v.numerator_as_long(), v.denominator_as_long()))
    except Exception:  # noqa: BLE001
        return float(v.approx(12).as_fraction()) if hasattr(v, "approx") else 0.0


def concrete_run(case_id, params, errtable, default_err=2.0):
    """run the REAL driver eagerly (no jit) with a concrete error profile given as a table
    {(t, dt) -> value}; returns the attempt log and outputs"""
    import re
    import jax
    import jax.numpy as jnp
    from probdiffeq import ivpsolve
    from probdiffeq._probdiffeq.utilities import InterpResult
    routine, ctrl, clip, sz = case_id.split("/")
    clip = clip == "clip"
    log_ = []

    def lookup(t, dt):
        best, bd = default_err, 1e-9
        for (tt, dd), v in errtable.items():
            d = abs(tt - t) + abs(dd - dt)
            if d < bd:
                best, bd = v, d
        return best

    class Solver:
        is_suitable_for_save_at = True
        is_suitable_for_save_every_step = True

        def init(self, t, u, *, damp):
            return St(jnp.asarray(t), jnp.asarray(u), jnp.asarray(0.0))

        def step(self, state, *, dt, damp):
            log_.append({"tag": "step", "t": float(state.t), "dt": float(dt), "x": float(state.x), "ns": float(state.num_steps),
                         "damp": float(damp)})
            return St(state.t + dt, state.x + 1.0, state.num_steps + 1.0)

        def interpolate_fwd(self, *, t, interp_from, interp_to):
            log_.append({"tag": "interp", "t": float(t), "a": float(interp_from.t), "b": float(interp_to.t)})
            mid = St(jnp.asarray(t), interp_to.x, interp_to.num_steps)
            return mid, InterpResult(step_from=interp_to, interp_from=mid)

        def interpolate_fwd_at_t1(self, *, t, interp_from, interp_to):
            log_.append({"tag": "interp_at", "t": float(t), "a": float(interp_from.t), "b": float(interp_to.t)})
            return interp_to, InterpResult(step_from=interp_to, interp_from=interp_to)

        def userfriendly_output(self, *, solution0, solution, solution1):
            return St(jnp.concatenate([solution0.t[None], solution.t]), solution.x,
                      jnp.concatenate([solution0.num_steps[None], solution.num_steps]))

    class Err:
        def init_error(self):
            return jnp.asarray(0.0)

        def estimate_error_norm(self, state, previous, proposed, *, dt, atol, rtol, damp):
            e = lookup(float(previous.t), float(dt))
            log_[-1]["err"] = e
            log_[-1]["tols"] = [float(atol), float(rtol), float(damp)]
            log_[-1]["est_in"] = float(state)
            log_[-1]["est_out"] = float(state) + 1.0
            return jnp.asarray(e), state + 1.0
    base = ivpsolve.control_integral if ctrl == "i" else ivpsolve.control_proportional_integral

    class Ctl(base):
        def apply(self, dt, state, /, *, error_power):
            o, st = super().apply(dt, state, error_power=error_power)
            log_[-1].update({"ctrl_in": float(dt), "ctrl_err": float(error_power), "proposal": float(o),
                             "mem_in": float(state) if ctrl == "pi" else 0.0, "mem_out": float(st) if ctrl == "pi" else 0.0})
            return o, st
    control = Ctl(safety=params["safety"], factor_min=params["fmin"], factor_max=params["fmax"])
    with jax.disable_jit():
        if routine == "save_at":
            solve = ivpsolve.solve_adaptive_save_at(solver=Solver(), error=Err(), control=control, clip_dt=clip)
            sol = solve(jnp.asarray(params["x0"]), save_at=jnp.asarray(params["T"]), atol=ATOL, rtol=RTOL, damp=DAMP,
                        dt0=params["dt0"], eps=params["eps"])
        else:
            solve = ivpsolve.solve_adaptive_terminal_values(solver=Solver(), error=Err(), control=control, clip_dt=clip)
            sol = solve(jnp.asarray(params["x0"]), t0=params["T"][0], t1=params["T"][1], atol=ATOL, rtol=RTOL, damp=DAMP,
                        dt0=params["dt0"], eps=params["eps"])
    return log_, np.atleast_1d(np.asarray(sol.t)), np.atleast_1d(np.asarray(sol.num_steps))


def check_log(case_id, params, log_, ts, ns):
    """independent plain-Python statement of the C06 clauses on a concrete attempt log"""
    routine, ctrl, clip, sz = case_id.split("/")
    clip = clip == "clip"
    eps, T = params["eps"], params["T"]
    bad = []
    attempts = [e for e in log_ if e["tag"] == "step"]
    tol = 1e-12
    for a in attempts:
        if "ctrl_in" not in a:
            bad.append(("the caller's controller is applied once per attempt", a))
            break
    attempts = [a for a in attempts if "ctrl_in" in a] if all("ctrl_in" in a for a in attempts) else []
    for a, b in zip(attempts, attempts[1:]):
        if "est_in" in a and "est_in" in b:
            want = a["est_in"] if a["err"] < 1 else a["est_out"]
            if b["est_in"] != want:
                bad.append(("rejected attempt leaves the error estimator's state untouched; an accepted one promotes the state it produced", a, b))
    for a, b in zip(attempts, attempts[1:]):
        if a["err"] < 1:
            if abs(b["t"] - a["t"]) > tol or not (b["dt"] < a["dt"]) or b["x"] != a["x"] or b["ns"] != a["ns"]:
                bad.append(("rejected attempt: state untouched and next attempt strictly smaller", a, b))
        else:
            if abs(b["t"] - (a["t"] + a["dt"])) > 1e-9 or b["ns"] != a["ns"] + 1:
                bad.append(("time and step count advance only through accepted attempts (err>=1)", a, b))
    for a in attempts:
        if not a["dt"] > 0:
            bad.append(("every attempted step is positive", a))
        if abs(a["ctrl_in"] - a["dt"]) > 1e-12 * max(1, abs(a["dt"])) or a["ctrl_err"] != a["err"]:
            bad.append(("controller is applied to the attempted step and the estimate of that attempt", a))
        f = a["proposal"] / a["dt"]
        if f < params["fmin"] * (1 - 1e-9) or f > params["fmax"] * (1 + 1e-9):
            bad.append(("proposal = attempted step x factor in [factor_min, factor_max]", a))
        if ctrl == "pi":
            if (a["err"] < 1 and a["mem_out"] != a["mem_in"]) or (a["err"] >= 1 and a["mem_out"] != a["err"]):
                bad.append(("PI memory changes only on acceptance", a))
    if clip:
        k = 1
        for a in attempts:
            while k < len(T) - 1 and a["t"] + eps >= T[k]:
                k += 1
            if a["t"] + a["dt"] > T[k] * (1 + 1e-12) + 1e-12:
                bad.append(("with clipping no attempt ends beyond the next checkpoint", a, T[k]))
    for e in log_:
        if e["tag"] in ("interp", "interp_at"):
            slack = eps if e["tag"] == "interp_at" else 0.0
            if e["t"] < e["a"] - slack - 1e-12 or e["t"] > e["b"] + slack + 1e-12:
                bad.append(("every interpolation lies between the two states it interpolates", e))
    if routine == "save_at":
        for k in range(len(T)):
            if abs(ts[k] - T[k]) > eps * (1 + 1e-9):
                bad.append(("every requested time is reported once, in order, within eps", k, float(ts[k]), T[k]))
    else:
        if abs(ts[0] - T[1]) > eps * (1 + 1e-9):
            bad.append(("terminal value is reported at t1 within eps", float(ts[0]), T[1]))
    return bad


def replay_model(case_id, model, T, dt0, eps, safety, fmin, fmax, x0, dom, apps, name):
    params = {"T": [_frac(model, t) for t in T], "dt0": _frac(model, dt0), "eps": _frac(model, eps),
              "safety": _frac(model, safety), "fmin": _frac(model, fmin), "fmax": _frac(model, fmax), "x0": 0.0}
    table = {}
    for a in apps:
        t_, d_ = a.children()
        table[(_frac(model, t_), _frac(model, d_))] = _frac(model, a)
    info = {"params": params, "error_profile": [[k[0], k[1], v] for k, v in table.items()], "obligation_name": name}
    try:
        log_, ts, ns = concrete_run(case_id, params, table)
        bad = check_log(case_id, params, log_, ts, ns)
        info["replay_violations"] = [str(b)[:300] for b in bad[:5]]
        info["attempt_log"] = log_[:12]
        return (False if bad else True), info
    except Exception as ex:  # noqa: BLE001
        info["replay_error"] = repr(ex)
        return None, info


def replay(path):
    with open(path) as f:
        data = json.load(f)
    table = {(a, b): v for a, b, v in data["error_profile"]}
    log_, ts, ns = concrete_run(data["case"], data["params"], table)
    bad = check_log(data["case"], data["params"], log_, ts, ns)
    for b in bad[:5]:
        print("  ", b)
    if bad:
        print(f"VIOLATION property=C06 replay={path}")
        return 1
    print("counterexample does not reproduce on the current tree")
    return 0


def evidence(tier, seed, results, wall):
    st = sum(r.get("states", 0) for r in results)
    tr = sum(r.get("transitions", 0) for r in results)
    samples = []
    for r in results[:2]:
        samples.append({"case": r.get("case"), "encoded": r.get("encoded"), "vacuity": r.get("vacuity"),
                        "obligations": [o["id"] for o in r.get("obligations", [])][:4]})
    return {"coverage": {"states": max(st, 1), "transitions": max(tr, 1), "traces_validated_against_impl": sum(
        1 for r in results for o in r.get("obligations", []) if o.get("counterexample")),
        "samples": samples or [{"note": "none"}],
        "explanation": "states = guarded attempt/interpolation sites of the unrolled real driver; transitions = ordered "
                       "pairs of attempt sites related by the run-time successor relation"}}
