"""C17 -- Jacobian handlers return exact or exactly-unbiased Jacobian blocks (direct back end)."""
import itertools

import numpy as np

from jxs.direct import DCase
from jxs.harness import sym_array
from jxs.poly import Poly
from jxs import poly as P

META = {
    "level": "model_checking",
    "functions": ["jacobian_materialize.materialize_dense/calculate_trace_along_d/calculate_diagonal_along_d",
                  "jacobian_monte_carlo_fwd.calculate_trace_along_d/calculate_diagonal_along_d/materialize_dense",
                  "jacobian_monte_carlo_rev.calculate_trace_along_d/calculate_diagonal_along_d/materialize_dense",
                  "backend.func.jacfwd/jacrev/linearize/vjp/vmap", "backend.linalg.trace/einsum"],
    "bounds": {"quick": "polynomial maps (n_in,d)->(n_out,d) of degree 2 with symbolic coefficients and symbolic evaluation "
                        "point, (n_in,n_out,d) in {(2,1,2),(1,2,2),(2,2,1)}; Monte-Carlo handlers with 1 and 2 probes, probes "
                        "symbolic (v^2=1), expectation over all sign patterns taken algebraically",
               "thorough": "additionally (2,2,2), (3,2,2), (2,3,1) and 3 probes"},
    "assumptions": ["A1 reals", "A6 polynomial maps with symbolic coefficients", "random.rademacher replaced by symbolic +-1 "
                    "probes; independence and uniformity of the probes is the contract of the PRNG, not checked"],
    "outside": ["input validation (_verify_fun_and_x) and key advancement are Python/PRNG-level behaviours", "non-polynomial maps"],
}

SHAPES_Q = [(2, 1, 2), (1, 2, 2), (2, 2, 1)]
SHAPES_T = SHAPES_Q + [(2, 2, 2), (3, 2, 2), (2, 3, 1)]


def cases(tier):
    out = []
    shapes = SHAPES_Q if tier == "quick" else SHAPES_T
    for (ni, no, d) in shapes:
        for op in ("dense", "trace", "diag"):
            out.append(f"materialize/{op}/i{ni}o{no}d{d}/p0")
        for h in ("mc_fwd", "mc_rev"):
            for op in ("trace", "diag"):
                for probes in ((1, 2) if tier == "quick" else (1, 2, 3)):
                    out.append(f"{h}/{op}/i{ni}o{no}d{d}/p{probes}")
            out.append(f"{h}/dense/i{ni}o{no}d{d}/p1")
    # keyword arguments of the map (fun_kwargs) must reach the value AND the differentiated function
    ni, no, d = shapes[0]
    for op in ("dense", "trace", "diag"):
        out.append(f"materialize/{op}/i{ni}o{no}d{d}/p0/kw")
        out.append(f"mc_fwd/{op}/i{ni}o{no}d{d}/p1/kw")
        out.append(f"mc_rev/{op}/i{ni}o{no}d{d}/p1/kw")
    return out


def parse(case_id):
    import re
    h, op, sz, pr = case_id.split("/")[:4]
    ni, no, d = map(int, re.match(r"i(\d+)o(\d+)d(\d+)", sz).groups())
    return h, op, ni, no, d, int(pr[1:])


def coeffs(dom, ni, no, d):
    return {"c": sym_array(dom, "c", (no, d)), "L": sym_array(dom, "L", (no, d, ni, d)),
            "Q": sym_array(dom, "Q", (no, d, ni, d)), "K": sym_array(dom, "K", (no, d))}


def fun_eval(co, x):
    """(n_in, d) -> (n_out, d); generic over jax / numpy-float / numpy-object arrays"""
    if isinstance(x, np.ndarray):
        lin = np.einsum("manb,nb->ma", co["L"], x) if x.dtype != object else _einsum_obj(co["L"], x)
        quad = np.einsum("manb,nb->ma", co["Q"], x * x) if x.dtype != object else _einsum_obj(co["Q"], x * x)
        return co["c"] + lin + quad + co["K"] * (x[0, 0] * x[-1, -1])
    import jax.numpy as jnp
    return (co["c"] + jnp.einsum("manb,nb->ma", co["L"], x) + jnp.einsum("manb,nb->ma", co["Q"], x * x)
            + co["K"] * (x[0, 0] * x[-1, -1]))


def _einsum_obj(T, x):
    no, d, ni, _ = T.shape
    out = np.empty((no, d), dtype=object)
    for m in range(no):
        for a in range(d):
            s = Poly()
            for n in range(ni):
                for b in range(d):
                    s = s + T[m, a, n, b] * x[n, b]
            out[m, a] = s
    return out


def jac_oracle(co, x, sym):
    """J[m,a,n,b] = d f[m,a] / d x[n,b]"""
    no, d, ni, _ = co["L"].shape
    J = np.empty((no, d, ni, d), dtype=object if sym else float)
    for m in range(no):
        for a in range(d):
            for n in range(ni):
                for b in range(d):
                    v = co["L"][m, a, n, b] + 2 * co["Q"][m, a, n, b] * x[n, b]
                    if (n, b) == (0, 0):
                        v = v + co["K"][m, a] * x[-1, -1]
                    if (n, b) == (ni - 1, d - 1):
                        v = v + co["K"][m, a] * x[0, 0]
                    J[m, a, n, b] = v
    return J


def rademacher_expectation(p, vvars):
    """E over independent uniform +-1 values of the variables vvars (v^2 = 1)"""
    out = {}
    for m, c in p.t.items():
        keep = []
        zero = False
        for v, e in m:
            if v in vvars:
                if e % 2:
                    zero = True
                    break
            else:
                keep.append((v, e))
        if zero:
            continue
        k = tuple(keep)
        out[k] = out.get(k, 0) + c
        if out[k] == 0:
            del out[k]
    return Poly(out)


def build(case_id):
    handler, op, ni, no, d, probes = parse(case_id)
    kw = case_id.endswith("/kw")

    def make(dom):
        from probdiffeq import probdiffeq
        from probdiffeq.backend import random as pdrandom
        import jax
        import jax.numpy as jnp
        co = coeffs(dom, ni, no, d)
        x = sym_array(dom, "x", (ni, d))
        nv = ni if handler == "mc_fwd" else no
        V = sym_array(dom, "v", (max(probes, 1), nv, d)) if handler != "materialize" else np.zeros((1, 1, 1))
        make.sym = (co, x, V)
        w = sym_array(dom, "w", ()) if kw else np.zeros(())

        def fn(co, x, V, w):
            kwargs = {"w": w} if kw else {}
            if handler == "materialize":
                h = probdiffeq.jacobian_materialize()
            elif handler == "mc_fwd":
                h = probdiffeq.jacobian_monte_carlo_fwd(seed=3, num_probes=probes)
            else:
                h = probdiffeq.jacobian_monte_carlo_rev(seed=3, num_probes=probes)
            state = h.init_jacobian_handler()
            orig = pdrandom.rademacher
            if handler != "materialize":
                def fake(key, /, shape, dtype):
                    # hand out the symbolic probes; a request for fewer rows gets the leading ones
                    assert len(shape) == V.ndim and all(a <= b for a, b in zip(shape, V.shape)), (shape, V.shape)
                    return V[tuple(slice(0, a) for a in shape)].astype(dtype)
                pdrandom.rademacher = fake
            try:
                if kw:
                    f = lambda s, *, w=0.0: fun_eval(co, s) * (1.0 + w)   # noqa: E731
                else:
                    f = lambda s: fun_eval(co, s)   # noqa: E731
                if op == "dense":
                    fx, J, st = h.materialize_dense(f, x, state, **kwargs)
                elif op == "trace":
                    fx, J, st = h.calculate_trace_along_d(f, x, state, **kwargs)
                else:
                    fx, J, st = h.calculate_diagonal_along_d(f, x, state, **kwargs)
            finally:
                pdrandom.rademacher = orig
            if handler == "materialize":
                adv = jnp.asarray(1.0)
            else:
                import jax
                adv = jnp.any(jax.random.key_data(st) != jax.random.key_data(state)).astype(float)
            return fx, J, adv
        return fn, (co, x, V, w)

    def goals(args, out, orc):
        co, x, V, w = args
        fx, J, adv = out
        sym = orc.sym
        co = {k: orc.arr(v) for k, v in co.items()}
        x = orc.arr(x)
        Jo = jac_oracle(co, x, sym)
        fac = (orc.arr(w)[()] + 1) if kw else None
        if kw:
            Jo = Jo * fac
        if op == "dense":
            want = Jo
        elif op == "trace":
            want = np.empty((no, ni), dtype=object if sym else float)
            for m in range(no):
                for n in range(ni):
                    s = Jo[m, 0, n, 0]
                    for a in range(1, d):
                        s = s + Jo[m, a, n, a]
                    want[m, n] = s
        else:
            want = np.empty((d, no, ni), dtype=object if sym else float)
            for a in range(d):
                for m in range(no):
                    for n in range(ni):
                        want[a, m, n] = Jo[m, a, n, a]
        res = {"value": (orc.arr(fx), fun_eval(co, x) * fac if kw else fun_eval(co, x))}
        if handler != "materialize" and op != "dense":
            # only the calls that draw probes consume randomness (materialize_dense of the stochastic handlers draws none)
            res["handler state (PRNG key) advanced by the call [concrete]"] = (orc.arr(adv), orc.arr(np.asarray(1.0)))
        Jimpl = orc.arr(J)
        if handler == "materialize" or op == "dense":
            res["jacobian"] = (Jimpl, want)
            return res
        if sym:
            vvars = set()
            for p in np.asarray(make.sym[2]).reshape(-1):
                vvars |= p.vars()
            E = np.vectorize(lambda p: rademacher_expectation(p, vvars), otypes=[object])(Jimpl)
            res["E[estimate]"] = (E, want)
            return res
        # float replay: average the real estimator over ALL sign patterns of the probes (exhaustive)
        return res
    return make, goals


class MCCase(DCase):
    """adds, in replay, the exhaustive average over all sign patterns on the real code"""

    def replay_float(self, tr, args, env):
        rep = super().replay_float(tr, args, env)
        handler, op, ni, no, d, probes = parse(self.id.split("/", 1)[1])
        if handler == "materialize" or op == "dense":
            return rep
        co_s, x_s, V_s = self.make.sym
        vnames = [P.NAMES[list(p.vars())[0]] for p in np.asarray(V_s).reshape(-1)]
        if len(vnames) > 12:
            return rep
        acc = None
        for signs in itertools.product((1.0, -1.0), repeat=len(vnames)):
            e = dict(env)
            e.update({n: s for n, s in zip(vnames, signs)})
            fx, J, _adv = tr.run_real(e)
            acc = np.asarray(J, dtype=float) if acc is None else acc + np.asarray(J, dtype=float)
        acc = acc / (2 ** len(vnames))
        af = self._float_args(args, env)
        pairs = self.goals(af, (fx, acc, _adv), __import__("jxs.harness", fromlist=["Orc"]).Orc(None))
        # recompute the oracle block
        make, goals = build(self.id.split("/", 1)[1])
        from jxs.harness import Orc, close
        co, x, V, w = af
        Jo = jac_oracle({k: np.asarray(v, dtype=float) for k, v in co.items()}, np.asarray(x, dtype=float), False)
        if self.id.endswith("/kw"):
            Jo = Jo * (1.0 + float(np.asarray(w)))
        if op == "trace":
            want = np.einsum("manb,ab->mn", Jo, np.eye(d))
        else:
            want = np.einsum("mana->amn", Jo)
        ok, err = close(acc, want)
        rep["E[estimate]"] = {"ok": bool(ok), "max_abs_err": err, "impl": acc.reshape(-1).tolist()[:16],
                              "oracle": want.reshape(-1).tolist()[:16]}
        return rep


def _case(case_id, tier):
    make, goals = build(case_id)
    c = MCCase("C17/" + case_id, make, goals)
    return c


def run_case(case_id, tier="quick", seed=0, replay_dir=None, log=print):
    return _case(case_id, tier).run(seed=seed, log=log, replay_dir=replay_dir)


def replay(path):
    import json
    with open(path) as f:
        data = json.load(f)
    return _case(data["case"].split("/", 1)[1], "quick").replay(path)
