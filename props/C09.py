"""C09 -- prior transitions are the exact discretisation of their SDE and compose (back end P)."""
import math
from fractions import Fraction

import numpy as np

from jxs.harness import PCase, sym_array, Orc, scalar
from jxs.poly import Poly
from jxs import poly as P
from props import common as cm
from props import solvercommon as sc

META = {
    "level": "model_checking",
    "functions": ["utilities.system_matrices_1d_iwp", "utilities.preconditioner_taylor", "cholesky_util.cholesky_hilbert",
                  "state_space_model_{dense,isotropic,blockdiag}.prior_wiener_integrated(_diffuse)",
                  "{Dense,Isotropic,BlockDiag}WienerIntegrated.transition", "*LatentCond.preconditioner_apply/merge",
                  "gram_util.pade_and_legendre_{3,5,7,9,13}.init", "gram_util._exp_gram_cholesky_double",
                  "gram_util.exp_gram_cholesky / _exp_gram_cholesky_init",
                  "backend.linalg.qr_r/solve_lu"],
    "bounds": {"quick": "IWP: q in {1,2} (q=3 dense d=1), d<=2, the whole prior constructed INSIDE the trace (exact "
                        "arithmetic: sqrt of integers are algebraic atoms), symbolic step h>0, calibrated scale and base "
                        "scale; composition h1 then h2 (q=1); Pade/Legendre initialisation of all five orders on the nilpotent "
                        "IWP drift of size 2 and 3 (where every order is algebraically exact); one doubling step from an "
                        "arbitrary (e^A, U); the public exp_gram_cholesky (orders 9, 13) on the nilpotent drift with a concrete "
                        "tiny step 1/64 and symbolic noise scale, so the scaling/doubling count is the integer the real code "
                        "computes (zero after the clamp)",
               "thorough": "IWP up to q=4; composition for q=2; Pade sizes up to 4"},
    "assumptions": ["A1 reals", "A2 QR contract", "the linear solve inside the Pade initialisation is any solution X of "
                    "(V-U) X = rhs"],
    "outside": ["general (non-nilpotent) drifts: e^{Ah} is transcendental; OU/Matern priors", "the data-dependent doubling "
                "count ceil(log2(|A|/eta)) for a SYMBOLIC step (symbolic log2/ceil); concrete steps are covered by the full/* cases", "float32/float64 working precision", "q>4"],
}


def cases(tier):
    out = []
    for ssm in cm.SSMS:
        out.append(f"iwp/{ssm}/q1d2")
        out.append(f"iwp/{ssm}/q2d1")
        out.append(f"merge/{ssm}/q1d1")
    out.append("iwp/dense/q3d1")
    for order in (3, 5, 7, 9, 13):
        out.append(f"pade/{order}/n2")
        out.append(f"pade/{order}/n3")
    out.append("double/0/n2")
    for order in (3, 5, 7, 9, 13):
        out.append(f"padecoef/{order}/n1")
    # whole routine incl. the data-dependent scaling/doubling count (concrete step: tiny -> clamp, large -> doublings)
    out += ["full/9/small", "full/13/small"]
    if tier == "thorough":
        for ssm in cm.SSMS:
            out.append(f"iwp/{ssm}/q2d2")
            out.append(f"iwp/{ssm}/q4d1")
            out.append(f"merge/{ssm}/q2d1")
        for order in (5, 7, 9, 13):
            out.append(f"pade/{order}/n4")
        out += ["full/7/small", "full/13/unit"]
    return out


def iwp_closed_form(orc, q, d, h, lam, sigma):
    """dense (A, Q covariance) of the q-times integrated Wiener process over step h; index i*d+a"""
    n = q + 1
    A = orc.zeros((n * d, n * d))
    Qc = orc.zeros((n * d, n * d))
    for i in range(n):
        for j in range(n):
            for a in range(d):
                if j >= i:
                    c = Fraction(1, math.factorial(j - i))
                    A[i * d + a, j * d + a] = (sc.upow(h, j - i) * Poly.const(c)) if orc.sym else float(h) ** (j - i) * float(c)
                e = 2 * q + 1 - i - j
                c = Fraction(1, e * math.factorial(q - i) * math.factorial(q - j))
                la = lam[a] if np.ndim(lam) else lam
                if orc.sym:
                    Qc[i * d + a, j * d + a] = sc.upow(h, e) * Poly.const(c) * la * la * sigma * sigma
                else:
                    Qc[i * d + a, j * d + a] = float(h) ** e * float(c) * la * la * sigma * sigma
    return A, Qc


def build_iwp(ssm, q, d, merge=False):
    n = q + 1

    def make(dom):
        import jax.numpy as jnp
        h1 = sym_array(dom, "h1", (), unit=True)
        h2 = sym_array(dom, "h2", (), unit=True)
        lam = sym_array(dom, "lam", () if ssm == "isotropic" else (d,), unit=True)
        sig = sym_array(dom, "sig", (d,) if ssm == "blockdiag" else (), unit=True)

        def fn(h1, h2, lam, sig):
            f = cm.factory(ssm)
            tc = [jnp.zeros((d,)) for _ in range(n)]
            prior = f.prior_wiener_integrated(tc, output_scale=lam)
            t1 = prior.transition(dt=h1, output_scale=sig)
            if not merge:
                return t1.preconditioner_apply(), t1
            t2 = prior.transition(dt=h2, output_scale=sig)
            return t2.merge(t1), t1
        return fn, (h1, h2, lam, sig)

    def goals(args, out, orc):
        h1, h2, lam, sig = args
        c, t1 = out
        lam = orc.arr(lam)
        sg = orc.arr(sig)
        hh1 = sc.sc(orc.arr(h1)); hh2 = sc.sc(orc.arr(h2))
        if not merge:
            A, b, Qc = cm.dense_cond(orc, ssm, c, d)
            Ar = cm.embed_mat(orc, ssm, c.A, d)
            res = {}
            if ssm == "blockdiag":
                # per-dimension calibrated scale
                Ao, Qo = iwp_closed_form(orc, q, d, hh1, lam, 1 if not orc.sym else Poly.const(1))
                s2 = np.tile(sg, n)
                Qo = s2[:, None] * Qo * s2[None, :]
            else:
                Ao, Qo = iwp_closed_form(orc, q, d, hh1, lam, sc.sc(sg))
            res["A(h) = Taylor/Pascal"] = (A, Ao)
            res["A raw after preconditioner removal"] = (Ar, Ao)
            res["Q(h) = sigma^2 lambda^2 Hilbert-type"] = (Qc, Qo)
            res["offset = 0"] = (b, orc.zeros(b.shape))
            res["scalings removed"] = (np.concatenate([orc.arr(c.to_latent).reshape(-1), orc.arr(c.to_observed).reshape(-1)]),
                                       orc.arr(np.ones(np.size(c.to_latent) + np.size(c.to_observed))))
            # the un-applied transition represents the same conditional
            A1, b1, Q1 = cm.dense_cond(orc, ssm, t1, d)
            res["transition (with preconditioner) is the same conditional"] = (
                np.concatenate([A1.reshape(-1), Q1.reshape(-1)]), np.concatenate([Ao.reshape(-1), Qo.reshape(-1)]))
            return res
        A, b, Qc = cm.dense_cond(orc, ssm, c, d)
        hs = hh1 + hh2
        one = Poly.const(1) if orc.sym else 1.0
        if ssm == "blockdiag":
            Ao, Qo = iwp_sum(orc, q, d, hh1, hh2, lam, one)
            s2 = np.tile(sg, n)
            Qo = s2[:, None] * Qo * s2[None, :]
        else:
            Ao, Qo = iwp_sum(orc, q, d, hh1, hh2, lam, sc.sc(sg))
        return {"A(h2) A(h1) = A(h1+h2)": (A, Ao), "A(h2) Q(h1) A(h2)^T + Q(h2) = Q(h1+h2)": (Qc, Qo),
                "offset = 0": (b, orc.zeros(b.shape))}
    return make, goals


def iwp_sum(orc, q, d, h1, h2, lam, sigma):
    """closed form at step h1+h2, expanded by the binomial theorem (h1, h2 are unit monomials)"""
    n = q + 1
    A = orc.zeros((n * d, n * d))
    Qc = orc.zeros((n * d, n * d))

    def powsum(e):
        if not orc.sym:
            return (float(h1) + float(h2)) ** e
        tot = Poly()
        for k in range(e + 1):
            tot = tot + sc.upow(h1, k) * sc.upow(h2, e - k) * Poly.const(math.comb(e, k))
        return tot
    for i in range(n):
        for j in range(n):
            for a in range(d):
                if j >= i:
                    c = Fraction(1, math.factorial(j - i))
                    A[i * d + a, j * d + a] = powsum(j - i) * (Poly.const(c) if orc.sym else float(c))
                e = 2 * q + 1 - i - j
                c = Fraction(1, e * math.factorial(q - i) * math.factorial(q - j))
                la = lam[a] if np.ndim(lam) else lam
                Qc[i * d + a, j * d + a] = powsum(e) * (Poly.const(c) if orc.sym else float(c)) * la * la * sigma * sigma
    return A, Qc


def build_pade(order, n):
    """Pade/Legendre initialisation on the nilpotent IWP drift A = h*shift (size n), B = sigma*e_n"""
    q = n - 1

    def make(dom):
        import jax.numpy as jnp
        from probdiffeq.util import gram_util
        from probdiffeq.backend import linalg
        h = sym_array(dom, "h", (), unit=True)
        sg = sym_array(dom, "sig", (), positive=True)

        def fn(h, sg):
            pl = getattr(gram_util, f"pade_and_legendre_{order}")()
            A = h * jnp.diag(jnp.ones((n - 1,)), k=1)
            B = sg * jnp.eye(n)[:, -1:]
            B = jnp.concatenate([jnp.zeros((n, n - 1)), B], axis=1)
            eA, L = pl.init(A, B, solve=linalg.solve_lu)
            return eA, L
        return fn, (h, sg)

    def goals(args, out, orc):
        h, sg = args
        eA, L = out
        hh = sc.sc(orc.arr(h)); s = sc.sc(orc.arr(sg))
        one = Poly.const(1) if orc.sym else 1.0
        Ao, Qo = iwp_closed_form(orc, q, 1, hh, np.array([one], dtype=object if orc.sym else float), s)
        # Gramian over the unit horizon of the drift h*N: same closed form with one power of h less
        hinv = sc.upow(hh, -1) if orc.sym else 1.0 / float(hh)
        Go = Qo * hinv
        Lo = orc.arr(L)
        return {"e^A": (orc.arr(eA), Ao), "L L^T = Gramian": (Lo.dot(Lo.T), Go)}
    return make, goals


def build_padecoef(order):
    """the matrix-exponential part of the initialisation is the diagonal [q/q] Pade approximant of exp, with the
    textbook coefficients c_k = (2q-k)! q! / ((2q)! k! (q-k)!), on a symbolic 1x1 drift (all powers non-zero)"""
    def make(dom):
        import jax.numpy as jnp
        from probdiffeq.util import gram_util
        from probdiffeq.backend import linalg
        a = sym_array(dom, "a", ())
        bb = sym_array(dom, "b", ())

        def fn(a, bb):
            pl = getattr(gram_util, f"pade_and_legendre_{order}")()
            eA, L = pl.init(jnp.reshape(a, (1, 1)), jnp.reshape(bb, (1, 1)), solve=linalg.solve_lu)
            return eA
        return fn, (a, bb)

    def goals(args, out, orc):
        a, bb = args
        x = sc.sc(orc.arr(a))
        q = order
        num = den = (Poly() if orc.sym else 0.0)
        for k in range(q + 1):
            c = Fraction(math.factorial(2 * q - k) * math.factorial(q), math.factorial(2 * q) * math.factorial(k) * math.factorial(q - k))
            term = (x ** k) * (Poly.const(c) if orc.sym else float(c))
            num = num + term
            den = den + term * ((-1) ** k)
        e = orc.arr(out).reshape(-1)[0]
        return {"e^A approximant = [q/q] Pade of exp (cross-multiplied)": (scalar(e * den) if orc.sym else np.asarray(e * den),
                                                                          scalar(num) if orc.sym else np.asarray(num))}
    return make, goals


def build_full(order, tag):
    """the public exp_gram_cholesky on the nilpotent drift with a CONCRETE step (so the data-dependent number of
    scaling/doubling steps is a concrete integer decided by the real code) and a symbolic noise scale"""
    n = 2
    q = n - 1
    hval = {"small": Fraction(1, 64), "unit": Fraction(1), "large": Fraction(8)}[tag]

    def make(dom):
        import jax.numpy as jnp
        from probdiffeq.util import gram_util
        from probdiffeq.backend import linalg
        sg = sym_array(dom, "sig", (), positive=True)

        def fn(sg):
            pl = getattr(gram_util, f"pade_and_legendre_{order}")()
            A = float(hval) * jnp.diag(jnp.ones((n - 1,)), k=1)
            B = sg * jnp.eye(n)[:, -1:]
            B = jnp.concatenate([jnp.zeros((n, n - 1)), B], axis=1)
            eA, L = gram_util.exp_gram_cholesky(pade_legendre=pl, solve=linalg.solve_lu)(A, B)
            return eA, L
        return fn, (sg,)

    def goals(args, out, orc):
        (sg,) = args
        eA, L = out
        s = sc.sc(orc.arr(sg))
        hh = Poly.const(hval) if orc.sym else float(hval)
        one = Poly.const(1) if orc.sym else 1.0
        Ao, Qo = iwp_closed_form(orc, q, 1, hh, np.array([one], dtype=object if orc.sym else float), s)
        Go = Qo * (Poly.const(1 / hval) if orc.sym else 1.0 / float(hval))
        Lo = orc.arr(L)
        return {"e^A": (orc.arr(eA), Ao), "L L^T = Gramian": (Lo.dot(Lo.T), Go)}
    return make, goals


def build_double(n):
    def make(dom):
        from probdiffeq.util import gram_util
        E = sym_array(dom, "E", (n, n))
        U = sym_array(dom, "U", (n, n), "lower")

        def fn(E, U):
            i, (E2, U2) = gram_util._exp_gram_cholesky_double((0, (E, U)))
            return E2, U2
        return fn, (E, U)

    def goals(args, out, orc):
        E, U = [orc.arr(a) for a in args]
        E2, U2 = [orc.arr(a) for a in out]
        G = U.dot(U.T)
        return {"e^{2A} = (e^A)^2": (E2, E.dot(E)), "G(2) = G + e^A G e^{A^T}": (U2.dot(U2.T), G + E.dot(G).dot(E.T))}
    return make, goals


def _install_solve(case):
    """jnp.linalg.solve is a named jit: replace it by the contract 'some X with A X = B'"""
    def h(it, e, iv):
        A, B = it.obj(iv[0]), it.obj(iv[1])
        if it.dom.__class__.__name__ == "FloatDomain":
            return [it.dom.solve(A, B)]
        return [it.dom.solve(A, B)]
    case.interp_kw = {}
    return h


def _case(case_id, tier):
    kind, a, b = case_id.split("/")
    import re
    if kind in ("iwp", "merge"):
        q, d = map(int, re.match(r"q(\d+)d(\d+)", b).groups())
        make, goals = build_iwp(a, q, d, merge=(kind == "merge"))
    elif kind == "pade":
        make, goals = build_pade(int(a), int(b[1:]))
    elif kind == "padecoef":
        make, goals = build_padecoef(int(a))
    elif kind == "full":
        make, goals = build_full(int(a), b)
    else:
        make, goals = build_double(int(b[1:]))
    return PCase("C09/" + case_id, make, goals, budget_s=300 if tier == "quick" else 1500)


def run_case(case_id, tier="quick", seed=0, replay_dir=None, log=print):
    return _case(case_id, tier).run(seed=seed, log=log, replay_dir=replay_dir)


def replay(path):
    import json
    with open(path) as f:
        data = json.load(f)
    return _case(data["case"].split("/", 1)[1], "quick").replay(path)
