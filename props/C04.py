"""C04 -- output-scale calibration is the documented estimator and is scale-equivariant (back end P)."""
import dataclasses
import copy

import numpy as np

from jxs.harness import PCase, sym_array, Orc, scalar
from jxs.poly import Poly
from props import common as cm
from props import solvercommon as sc
from props import C02

META = {
    "level": "model_checking",
    "functions": ["solver_mle.init/step/userfriendly_output", "solver_dynamic.step/userfriendly_output", "solver.step",
                  "*Normal.residual_whitened_rms_*", "AbstractLatentCond.bayes_rule_and_residual_whitened_rms_tree",
                  "strategy_filter.finalize (rescale_cholesky)", "MarkovSequence.rescale_cholesky / rescale_noise",
                  "ProbabilisticSolver.interpolate_fwd/interpolate_fwd_at_t1 (scale used for interpolation)",
                  "*WienerIntegrated.transition (base scale)", "Smoother.finalize / MarkovSequence.rescale_cholesky (via the C03 grid harness)"],
    "bounds": {"quick": "one step from an ARBITRARY state (as C02): MLE running RMS update for num_data in {1,3}, dynamic "
                        "local estimate (with/without re-linearisation), uncalibrated scale = 1; 2-step fixed grid: reported "
                        "scale = running/sqrt(N) (correction on) or running (off), covariances = unit-scale covariances x "
                        "scale^2 (per dimension for blockdiag); equivariance: the same step with base scale lambda and "
                        "c*lambda (c>0 symbolic) side by side; q=1, d=1 (d=2 for blockdiag scale split)",
               "thorough": "additionally TS1 equivariance and d=2"},
    "assumptions": ["A1 reals", "A2/A3 contracts", "step-sequence invariance of adaptive runs follows from the invariance of "
                    "the acceptance quantity (C07 relational case) plus C06; stated, not re-queried"],
    "outside": ["floating point", "c in [1e-6,1e6] is covered as 'all real c>0'"],
}


def cases(tier):
    out = []
    for ssm in cm.SSMS:
        out.append(f"step/{ssm}/filter/mle/ts0/o1q1d1/damp_sym")
        out.append(f"step/{ssm}/filter/mle/ts1/o1q1d1/damp_zero")
        out.append(f"step/{ssm}/filter/dynamic/ts0/o1q1d1/damp_sym")
        out.append(f"step/{ssm}/filter/none/ts0/o1q1d1/damp_sym")
        out.append(f"grid2/{ssm}/filter/mle/ts0/o1q1d1/damp_zero")
        out.append(f"grid2nocorr/{ssm}/filter/mle/ts0/o1q1d1/damp_zero")
        out.append(f"grid2/{ssm}/filter/dynamic/ts0/o1q1d1/damp_zero")
        for calib in ("none", "mle", "dynamic"):
            out.append(f"equiv/{ssm}/filter/{calib}/ts0/o1q1d1/damp_zero")
        # the scale reported/used at checkpoints (shared with C05)
        out.append(f"interp/{ssm}/filter/dynamic/ts0/o1q1d1/damp_zero")
        out.append(f"interp_at/{ssm}/filter/dynamic/ts0/o1q1d1/damp_zero")
    # smoothers: calibrated smoothing covariances AND the returned backward kernels = unit-scale ones x scale^2
    # (the exact-posterior obligations of C03 on a 2-step grid, MLE mode)
    for ssm in cm.SSMS:
        out.append(f"smoother/grid2/{ssm}/fixedinterval/mle/ts0/o1q1d1/damp_zero")
    out.append("step/blockdiag/filter/mle/ts0/o1q1d2/damp_zero")
    out.append("step/dense/filter/mle3/ts0/o1q1d1/damp_zero")
    if tier == "thorough":
        for ssm in cm.SSMS:
            out.append(f"equiv/{ssm}/filter/mle/ts1/o1q1d1/damp_zero")
            out.append(f"equiv/{ssm}/fixedinterval/none/ts0/o1q1d1/damp_zero")
    return out


def build_equiv(key):
    """the same step with base scale lambda (run A) and c*lambda (run B)"""
    cfg = sc.parse_key(key)
    d = cfg.d

    def make(dom):
        co_c = {k: np.ones(s_) for k, s_ in (("c", (d,)), ("C", (d, d)), ("e", (d,)), ("g", (d,)))}
        solver_t, ssm, con = sc.make_solver(cfg, co_c)
        prior_c = sc.concrete_prior(cfg)
        c = sym_array(dom, "cc", (), unit=True)
        priorA, pinfo = sc.sym_prior(dom, cfg, prior_c)
        lamB = pinfo["lam"] * c[()] if np.ndim(pinfo["lam"]) else scalar(pinfo["lam"][()] * c[()])
        # same noise factor symbols, scaled base scale
        priorB = copy.copy(priorA)
        if cfg.ssm == "dense":
            priorB.Q = priorA.Q * c[()]
        else:
            priorB.output_scale = lamB
        stateA, sinfo = sc.sym_state(dom, cfg, solver_t, priorA)
        # run B starts from the correspondingly scaled state
        _, Normal = cm.impl(cfg.ssm)
        scaleP = cfg.calib in ("none", "mle")          # unit-scale covariances scale with c^2; calibrated ones do not
        LB = sinfo["L"] * c[()] if scaleP else sinfo["L"]
        uB = Normal(sinfo["m"], LB, stateA.u.tree_flatten)
        postB = uB
        if cfg.strategy != "filter":
            from probdiffeq._probdiffeq.estimators_and_losses import MarkovSequence
            postB = MarkovSequence(uB, stateA.solution_full.conditional, reverse=True)
        auxB = stateA.auxiliary
        if cfg.calib == "mle":
            rB = sinfo["running"] * sc.upow(c[()], -1)
            rB = rB if isinstance(rB, np.ndarray) else scalar(rB)
            auxB = (stateA.auxiliary[0], rB, stateA.auxiliary[2])
        stateB = dataclasses.replace(stateA, u=uB, solution_full=postB, auxiliary=auxB, prior=priorB)
        h = sym_array(dom, "h", (), unit=True)
        damp = np.zeros(())
        orc0 = Orc(dom)
        A0, Q0 = sc.prior_dense(orc0, cfg, prior_c, pinfo)
        Ah0, _, _ = sc.transition_dense(orc0, cfg, h[()], A0, Q0)
        mp0 = Ah0.dot(cm.embed_vec(orc0, cfg.ssm, sinfo["m"], d))
        ustar = sc.selector(orc0, cfg, 0).dot(mp0)
        co = sc.field_coeffs_at(dom, d, cfg.order, ustar, None, sinfo["t"][()] + h[()])

        def fn(stateA, stateB, h, damp, co, c):
            solver, _, _ = sc.make_solver(cfg, co)
            a = solver.step(stateA, dt=h, damp=damp)
            b = solver.step(stateB, dt=h, damp=damp)
            return (a.u, a.output_scale, a.auxiliary), (b.u, b.output_scale, b.auxiliary)
        return fn, (stateA, stateB, h, damp, co, c)

    def goals(args, out, orc):
        (ua, osa, auxa), (ub, osb, auxb) = out
        c = sc.sc(orc.arr(args[5]))
        ma, Pa = cm.dense_rv(orc, cfg.ssm, ua, d)
        mb, Pb = cm.dense_rv(orc, cfg.ssm, ub, d)
        res = {}
        if cfg.calib in ("none", "mle"):
            res["posterior mean does not depend on the base scale"] = (mb, ma)
            res["unit-scale covariance scales with c^2"] = (Pb, Pa * (c * c))
        # dynamic mode: the step equals the EKF step with process noise (sigma_hat*lambda)^2 Q (C02 dynamic obligations);
        # with sigma_hat -> sigma_hat/c (below) that product, hence mean and calibrated covariance, is unchanged
        if cfg.calib == "mle":
            ra, rb = orc.arr(auxa[1]), orc.arr(auxb[1])
            res["running MLE scale divides by c (squared)"] = (rb * rb * (c * c), ra * ra)
        if cfg.calib.startswith("dynamic"):
            sa, sb = orc.arr(osa), orc.arr(osb)
            res["dynamic scale divides by c (squared)"] = (sb * sb * (c * c), sa * sa)
        if cfg.calib == "none":
            res["uncalibrated scale is one"] = (np.concatenate([orc.arr(osa).reshape(-1), orc.arr(osb).reshape(-1)]),
                                                orc.arr(np.ones(2 * np.size(osa))))
        return res
    return make, goals


def _case(case_id, tier):
    kind, key = case_id.split("/", 1)
    kw = {}
    if kind == "step":
        if "/mle3/" in key:
            key = key.replace("/mle3/", "/mle/")
            make, goals = C02.build_step(key, num_data=3)
        else:
            make, goals = C02.build_step(key)
    elif kind == "grid2":
        make, goals = C02.build_grid(key, nsteps=2)
    elif kind == "grid2nocorr":
        make, goals = C02.build_grid(key, nsteps=2, correct=False)
    elif kind == "equiv":
        make, goals = build_equiv(key)
    elif kind in ("interp", "interp_at"):
        from props import C05
        make, goals = C05.build_interp(key, at_t1=(kind == "interp_at"))
    else:
        raise KeyError(kind)
    return PCase("C04/" + case_id, make, goals, budget_s=300 if tier == "quick" else 1200)


def run_case(case_id, tier="quick", seed=0, replay_dir=None, log=print):
    if case_id.startswith("smoother/"):
        from props import C03
        r = C03.run_case(case_id.split("/", 1)[1], tier=tier, seed=seed, replay_dir=replay_dir, log=log)
        r["case"] = "C04/" + case_id
        for o in r.get("obligations", []):
            o["id"] = o["id"].replace("C03/", "C04/smoother/", 1)
        return r
    return _case(case_id, tier).run(seed=seed, log=log, replay_dir=replay_dir)


def replay(path):
    import json
    with open(path) as f:
        data = json.load(f)
    if data["case"].startswith("C03/"):
        from props import C03
        return C03.replay(path)
    return _case(data["case"].split("/", 1)[1], "quick").replay(path)
