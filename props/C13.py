"""C13 -- posterior samples are exact affine images of the normal draws (direct back end)."""
import numpy as np

from jxs.direct import DCase
from jxs.harness import sym_array, Orc, scalar
from jxs.poly import Poly
from jxs import poly as P
from props import common as cm
from props import solvercommon as sc

META = {
    "level": "model_checking",
    "functions": ["MarkovSequence.sample", "MarkovSequence.from_grid", "MarkovSequence.remove_filtering_distributions",
                  "{Dense,Isotropic,BlockDiag}LatentCond.apply_flat", "{Dense,Isotropic,BlockDiag}Normal.sample_flat",
                  "backend.random.split/normal (normal replaced by symbolic draws indexed by the concrete key)",
                  "backend.tree.tree_array_append/prepend", "*WienerIntegrated.transition (from_grid)"],
    "bounds": {"quick": "ARBITRARY backward Markov sequences (symbolic terminal marginal, 2 symbolic conditionals with non-unit "
                        "scalings and non-zero offsets), n=2 coefficients, d=2, three factorisations, sample shapes (), (2,), (2,2); "
                        "prior sequences from_grid on a symbolic 3-point grid",
               "thorough": "3 conditionals, n=3"},
    "assumptions": ["A1 reals", "random.normal is replaced by an uninterpreted function of the (concrete) PRNG key: equal keys give "
                    "equal draws, distinct keys independent symbols; that jax.random.normal yields independent standard normals "
                    "for distinct keys is the PRNG's contract"],
    "outside": ["statistical properties of the PRNG", "longer sequences"],
}


def cases(tier):
    out = []
    for ssm in cm.SSMS:
        out.append(f"seq/{ssm}/k2/s0")
        out.append(f"seq/{ssm}/k2/s1")
        out.append(f"grid/{ssm}/k2/s0")
    out.append("seq/dense/k2/s2")
    out.append("seq/blockdiag/k2/s3")
    if tier == "thorough":
        for ssm in cm.SSMS:
            out.append(f"seq/{ssm}/k3/s1")
            out.append(f"stacked/{ssm}/k2/s0")
    return out


def build(case_id):
    kind, ssm, k, s = case_id.split("/")
    nk = int(k[1:]); shape = {"s0": (), "s1": (2,), "s2": (2, 2), "s3": (1, 2)}[s]
    n, d = 2, 2
    N = n * d

    def make(dom):
        import jax
        import jax.numpy as jnp
        from probdiffeq._probdiffeq.estimators_and_losses import MarkovSequence
        from probdiffeq.backend import random as pdrandom
        from jxs.markers import UF
        Cond, Normal = cm.impl(ssm)
        cfg = sc.Cfg(ssm=ssm, q=n - 1, d=d)
        prior_c = sc.concrete_prior(cfg)
        tf = prior_c.init.tree_flatten
        mT, LT = cm.sym_rv(dom, ssm, n, d, "T")
        conds = [cm.sym_cond(dom, ssm, n, n, d, f"k{i}") for i in range(nk)]
        hs = [sym_array(dom, f"h{i}", (), unit=True) for i in range(nk)]
        prior_s, pinfo = sc.sym_prior(dom, cfg, prior_c)
        prior_s.init = Normal(mT, LT, tf)
        make.sym = {"prior_c": prior_c, "pinfo": pinfo, "cfg": cfg}

        def fn(rvT, conds, hs, prior, pin):
            orig = pdrandom.normal

            def fake(key, /, shape, dtype=None):
                kd = jax.random.key_data(key) if jnp.issubdtype(key.dtype, jax.dtypes.prng_key) else key
                kd = jnp.asarray(kd).astype(jnp.float64).reshape(-1)
                return UF("z", *[kd[i] for i in range(kd.shape[0])], shape=tuple(shape))
            pdrandom.normal = fake
            try:
                if kind == "grid":
                    grid = jnp.concatenate([jnp.zeros((1,)), jnp.cumsum(jnp.stack(hs))])
                    seq = MarkovSequence.from_grid(prior, grid=grid, reverse=False)
                else:
                    cs = [Cond(A, Normal(b, Q, tf), to_latent=tl, to_observed=to) for (A, b, Q, tl, to) in conds]
                    stacked = jax.tree_util.tree_map(lambda *xs: jnp.stack(xs), *cs)
                    marg = Normal(*rvT, tf)
                    if kind == "stacked":     # carries (unused) filtering marginals that must be dropped
                        marg = jax.tree_util.tree_map(lambda x: jnp.stack([x * 0.0 + 7.0] * nk + [x])[1:], marg)
                    seq = MarkovSequence(marg, stacked, reverse=True)
                smp = seq.sample(pdrandom.prng_key(seed=3), shape=shape)
            finally:
                pdrandom.normal = orig
            return smp

        def run_forced(args_f, which):
            """the REAL sampler (eager), with the k-th scalar normal draw forced to one and all others to zero"""
            (rvT, conds_f, hs_f, prior_f, _pin) = args_f
            orig = pdrandom.normal
            counter = [0]
            slots = {}      # draws are a function of the key: equal keys get the same (forced) draw

            def forced(key, /, shape, dtype=None):
                size = int(np.prod(shape)) if len(shape) else 1
                kb = (np.asarray(jax.random.key_data(key) if jnp.issubdtype(key.dtype, jax.dtypes.prng_key) else key).tobytes(), tuple(shape))
                if kb not in slots:
                    slots[kb] = counter[0]
                    counter[0] += size
                base = slots[kb]
                v = np.zeros((size,))
                if which is not None and base <= which < base + size:
                    v[which - base] = 1.0
                return jnp.asarray(v.reshape(shape))
            pdrandom.normal = forced
            try:
                with jax.disable_jit():
                    if kind == "grid":
                        grid = jnp.concatenate([jnp.zeros((1,)), jnp.cumsum(jnp.stack([jnp.asarray(x) for x in hs_f]))])
                        seq = MarkovSequence.from_grid(prior_f, grid=grid, reverse=False)
                    else:
                        cs = [Cond(jnp.asarray(A), Normal(jnp.asarray(b), jnp.asarray(Q), tf), to_latent=jnp.asarray(tl),
                                   to_observed=jnp.asarray(to)) for (A, b, Q, tl, to) in conds_f]
                        stacked = jax.tree_util.tree_map(lambda *xs: jnp.stack(xs), *cs)
                        seq = MarkovSequence(Normal(jnp.asarray(rvT[0]), jnp.asarray(rvT[1]), tf), stacked, reverse=True)
                    smp = seq.sample(pdrandom.prng_key(seed=3), shape=())
            finally:
                pdrandom.normal = orig
            return [np.asarray(x) for x in smp], counter[0]
        def run_shape(args_f):
            """the REAL sampler with the real PRNG: only the shapes of the result"""
            (rvT, conds_f, hs_f, prior_f, _pin) = args_f
            cs = [Cond(jnp.asarray(A), Normal(jnp.asarray(b), jnp.asarray(Q), tf), to_latent=jnp.asarray(tl),
                       to_observed=jnp.asarray(to)) for (A, b, Q, tl, to) in conds_f]
            stacked = jax.tree_util.tree_map(lambda *xs: jnp.stack(xs), *cs)
            seq = MarkovSequence(Normal(jnp.asarray(rvT[0]), jnp.asarray(rvT[1]), tf), stacked, reverse=True)
            smp = seq.sample(pdrandom.prng_key(seed=3), shape=shape)
            return [tuple(np.shape(x)) for x in smp]
        make.run_forced = run_forced
        make.run_shape = run_shape
        return fn, ((mT, LT), conds, hs, prior_s, {"q1": pinfo["q1"], "lam": pinfo["lam"]})

    def oracle(args, orc):
        """exact joint law of the chain in dense coordinates: means and Cov(x_j, x_l), j <= l"""
        (mT, LT), conds, hs, prior, pin = args
        sym = make.sym
        K = nk
        mean = [None] * (K + 1); cov = {}
        if kind == "grid":
            A, Q = sc.prior_dense(orc, sym["cfg"], sym["prior_c"], pin)
            m0, P0 = cm.dense_rv_raw(orc, ssm, mT, LT, d)
            mean[0] = m0; cov[(0, 0)] = P0
            trans = []
            for j in range(K):
                Ah, Qh, _ = sc.transition_dense(orc, sym["cfg"], sc.sc(orc.arr(hs[j])), A, Q)
                trans.append((Ah, Qh))
                mean[j + 1] = Ah.dot(mean[j])
                cov[(j + 1, j + 1)] = Ah.dot(cov[(j, j)]).dot(Ah.T) + Qh
            for j in range(K + 1):
                for l in range(j + 1, K + 1):
                    Cjl = cov[(j, j)]
                    for r in range(j, l):
                        Cjl = Cjl.dot(trans[r][0].T)
                    cov[(j, l)] = Cjl
        else:
            mK, PK = cm.dense_rv_raw(orc, ssm, mT, LT, d)
            mean[K] = mK; cov[(K, K)] = PK
            ker = [cm.dense_cond_raw(orc, ssm, *conds[j], d) for j in range(K)]
            for j in range(K - 1, -1, -1):
                G, o, Sg = ker[j]
                mean[j] = G.dot(mean[j + 1]) + o
                cov[(j, j)] = G.dot(cov[(j + 1, j + 1)]).dot(G.T) + Sg
            for j in range(K + 1):
                for l in range(j + 1, K + 1):
                    Cjl = cov[(l, l)]
                    for r in range(l - 1, j - 1, -1):
                        Cjl = ker[r][0].dot(Cjl)
                    cov[(j, l)] = Cjl          # Cov(x_j, x_l)
        return mean, cov

    def goals(args, out, orc):
        assert orc.sym
        K = nk
        mean, cov = oracle(args, orc)
        S = [orc.arr(x) for x in out]          # list over Taylor coefficients, each (*shape, K+1, d)

        def sample_vec(idx, t):
            return np.array([S[i][idx + (t, a)] for i in range(n) for a in range(d)], dtype=object)
        res = {}
        want_shape = tuple(shape) + (K + 1, d)
        got = [tuple(np.shape(x)) for x in S]
        res["requested sample shape is prepended to (time, state) shape"] = (
            orc.arr(np.asarray([float(v) for g in got for v in (g + (0,) * 6)[:6]])),
            orc.arr(np.asarray([float(v) for g in got for v in (want_shape + (0,) * 6)[:6]])))
        if any(g != want_shape for g in got):
            return res
        idxs = list(np.ndindex(*shape)) if shape else [()]
        zsets = []
        for idx in idxs:
            vecs = [sample_vec(idx, t) for t in range(K + 1)]
            zv = set()
            for v in vecs:
                for p in v:
                    zv |= {x for x in p.vars() if P.NAMES[x].startswith("z")}
            zsets.append(zv)
            zl = sorted(zv)

            def split(p):
                const = {}; lin = {z: {} for z in zl}
                for m, c in p.t.items():
                    zs = [(v, e) for v, e in m if v in zv]
                    rest = tuple((v, e) for v, e in m if v not in zv)
                    if not zs:
                        const[rest] = const.get(rest, 0) + c
                    else:
                        assert len(zs) == 1 and zs[0][1] == 1, "sample is not affine in the draws"
                        lin[zs[0][0]][rest] = lin[zs[0][0]].get(rest, 0) + c
                return Poly(const), [Poly(lin[z]) for z in zl]
            consts, Ts = [], []
            for v in vecs:
                cs, rows = [], []
                for p in v:
                    c0, r = split(p)
                    cs.append(c0); rows.append(r)
                consts.append(np.array(cs, dtype=object)); Ts.append(np.array(rows, dtype=object).reshape(N, len(zl)))
            tag = f"sample{list(idx)}" if idx else "sample"
            for t in range(K + 1):
                res[f"{tag}: zero draws give the smoothing mean at time {t}"] = (consts[t], mean[t])
            for j in range(K + 1):
                for l in range(j, K + 1):
                    res[f"{tag}: T_{j} T_{l}^T = Cov(x_{j}, x_{l})"] = (Ts[j].dot(Ts[l].T), cov[(j, l)])
        if len(idxs) > 1:
            disjoint = all(not (zsets[a] & zsets[b]) for a in range(len(idxs)) for b in range(a + 1, len(idxs)))
            one = scalar(Poly.const(1))
            res["different samples use disjoint draws"] = (scalar(Poly.const(1 if disjoint else 0)), one)
        return res
    return make, goals, oracle


class SCase(DCase):
    """replay on the REAL sampler: the normal draws are forced to zero (-> mean path) and to unit vectors (-> columns of
    the linear map T), eagerly; mean and T T^T are compared with the exact joint law in float64"""

    def replay_float(self, tr, args, env):
        from jxs.harness import close
        import jax
        af = self._float_args(args, env)
        af = jax.tree_util.tree_map(lambda x: np.asarray(x, dtype=float), af)
        kind, ssm, k, s = self.id.split("/")[1:]
        K = int(k[1:]); n, d = 2, 2; N = n * d
        x0, ndraws = self.make.run_forced(af, None)

        def vec(smp, t):
            return np.array([smp[i][t, a] for i in range(n) for a in range(d)])
        cols = []
        for j in range(ndraws):
            xj, _ = self.make.run_forced(af, j)
            cols.append(np.concatenate([vec(xj, t) - vec(x0, t) for t in range(K + 1)]))
        T = np.array(cols).T                                    # ((K+1)N, ndraws)
        mean_o, cov_o = self.oracle(af, __import__("jxs.harness", fromlist=["Orc"]).Orc(None))
        rep = {}
        m_impl = np.concatenate([vec(x0, t) for t in range(K + 1)])
        m_or = np.concatenate([np.asarray(mean_o[t], dtype=float) for t in range(K + 1)])
        C_impl = T.dot(T.T)
        C_or = np.zeros_like(C_impl)
        for j in range(K + 1):
            for l in range(j, K + 1):
                C_or[j * N:(j + 1) * N, l * N:(l + 1) * N] = np.asarray(cov_o[(j, l)], dtype=float)
                C_or[l * N:(l + 1) * N, j * N:(j + 1) * N] = np.asarray(cov_o[(j, l)], dtype=float).T
        ok1, e1 = close(m_impl, m_or); ok2, e2 = close(C_impl, C_or)
        worst = {"ok": bool(ok1 and ok2), "max_abs_err": max(e1, e2), "impl": m_impl.tolist()[:8] + C_impl.reshape(-1).tolist()[:8],
                 "oracle": m_or.tolist()[:8] + C_or.reshape(-1).tolist()[:8]}

        shp = self.make.run_shape(af) if kind != "grid" else None
        want = tuple({"s0": (), "s1": (2,), "s2": (2, 2), "s3": (1, 2)}[s]) + (K + 1, d)
        shape_rep = {"ok": shp is None or all(g == want for g in shp), "max_abs_err": 0.0, "impl": [str(shp)], "oracle": [str(want)]}

        class _All(dict):
            def __missing__(self, key):
                return shape_rep if key.startswith("requested sample shape") else worst
        return _All()


def _case(case_id, tier):
    make, goals, oracle = build(case_id)
    c = SCase("C13/" + case_id, make, goals, validate=False)
    c.oracle = oracle
    return c


def run_case(case_id, tier="quick", seed=0, replay_dir=None, log=print):
    return _case(case_id, tier).run(seed=seed, log=log, replay_dir=replay_dir)


def replay(path):
    import json
    with open(path) as f:
        data = json.load(f)
    return _case(data["case"].split("/", 1)[1], "quick").replay(path)
