"""Shared adapters: the three factorisations, their dense embeddings, textbook oracles."""
import numpy as np

from jxs.poly import Poly
from jxs.harness import sym_array, const_array, Orc, scalar
from jxs.interp import is_sym

SSMS = ("dense", "isotropic", "blockdiag")


def impl(ssm):
    from probdiffeq._probdiffeq import ssm_impl_dense as D, ssm_impl_isotropic as I, ssm_impl_blockdiag as B
    return {"dense": (D.DenseLatentCond, D.DenseNormal),
            "isotropic": (I.IsotropicLatentCond, I.IsotropicNormal),
            "blockdiag": (B.BlockDiagLatentCond, B.BlockDiagNormal)}[ssm]


def factory(ssm):
    from probdiffeq import probdiffeq
    return {"dense": probdiffeq.state_space_model_dense, "isotropic": probdiffeq.state_space_model_isotropic,
            "blockdiag": probdiffeq.state_space_model_blockdiag}[ssm]()


# ---------------------------------------------------------------- shapes of the raw operands
def rv_shapes(ssm, n, d):
    """(mean shape, cholesky shape)"""
    if ssm == "dense":
        return (n * d,), (n * d, n * d)
    if ssm == "isotropic":
        return (n, d), (n, n)
    return (d, n), (d, n, n)


def cond_shapes(ssm, n, k, d):
    """(A, noise mean, noise cholesky, to_latent, to_observed)"""
    if ssm == "dense":
        return (k * d, n * d), (k * d,), (k * d, k * d), (n * d,), (k * d,)
    if ssm == "isotropic":
        return (k, n), (k, d), (k, k), (n,), (k,)
    return (d, k, n), (d, k), (d, k, k), (d, n), (d, k)


def sym_rv(dom, ssm, n, d, pfx, chol="lower"):
    ms, cs = rv_shapes(ssm, n, d)
    return sym_array(dom, pfx + "m", ms), sym_array(dom, pfx + "L", cs, chol)


def sym_cond(dom, ssm, n, k, d, pfx, chol="lower", scal="unit"):
    As, bs, Qs, tls, tos = cond_shapes(ssm, n, k, d)
    A = sym_array(dom, pfx + "A", As)
    b = sym_array(dom, pfx + "b", bs)
    Q = sym_array(dom, pfx + "Q", Qs, chol)
    if scal == "unit":
        tl = sym_array(dom, pfx + "tl", tls, unit=True)
        to = sym_array(dom, pfx + "to", tos, unit=True)
    elif scal == "one":
        tl = np.ones(tls); to = np.ones(tos)
    else:
        tl = sym_array(dom, pfx + "tl", tls, positive=True)
        to = sym_array(dom, pfx + "to", tos, positive=True)
    return A, b, Q, tl, to


# ---------------------------------------------------------------- dense embeddings (oracle side)
def _zeros(orc, shape):
    return orc.zeros(shape)


def embed_mat(orc, ssm, M, d):
    """structured (rows x cols) factor/operator -> dense (rows*d x cols*d), coefficient-major"""
    M = orc.arr(M)
    if ssm == "dense":
        return M
    if ssm == "isotropic":
        r, c = M.shape
        out = _zeros(orc, (r * d, c * d))
        for i in range(r):
            for j in range(c):
                for a in range(d):
                    out[i * d + a, j * d + a] = M[i, j]
        return out
    dd, r, c = M.shape
    out = _zeros(orc, (r * dd, c * dd))
    for a in range(dd):
        for i in range(r):
            for j in range(c):
                out[i * dd + a, j * dd + a] = M[a, i, j]
    return out


def embed_vec(orc, ssm, v, d):
    """structured mean -> dense (rows*d,), coefficient-major"""
    v = orc.arr(v)
    if ssm == "dense":
        return v
    if ssm == "isotropic":
        return v.reshape(-1)
    return v.T.reshape(-1)


def embed_scal(orc, ssm, s, d):
    """structured diagonal scaling -> dense vector"""
    s = orc.arr(s)
    if ssm == "dense":
        return s
    if ssm == "isotropic":
        return np.repeat(s, d)
    return s.T.reshape(-1)


def dense_rv(orc, ssm, rv, d):
    """(mean, covariance) of a structured normal (object with mean_flat / cholesky_flat)"""
    L = embed_mat(orc, ssm, rv.cholesky_flat, d)
    return embed_vec(orc, ssm, rv.mean_flat, d), L.dot(L.T)


def dense_cond(orc, ssm, cond, d):
    """effective (A, offset, noise covariance) of a structured conditional, scalings applied"""
    A = embed_mat(orc, ssm, cond.A, d)
    b = embed_vec(orc, ssm, cond.noise.mean_flat, d)
    Q = embed_mat(orc, ssm, cond.noise.cholesky_flat, d)
    tl = embed_scal(orc, ssm, cond.to_latent, d)
    to = embed_scal(orc, ssm, cond.to_observed, d)
    Ae = to[:, None] * A * tl[None, :]
    be = to * b
    Qe = to[:, None] * Q
    return Ae, be, Qe.dot(Qe.T)


def dense_cond_raw(orc, ssm, A, b, Q, tl, to, d):
    class _N:  # tiny record
        pass
    c = _N(); c.noise = _N()
    c.A, c.noise.mean_flat, c.noise.cholesky_flat, c.to_latent, c.to_observed = A, b, Q, tl, to
    return dense_cond(orc, ssm, c, d)


def dense_rv_raw(orc, ssm, m, L, d):
    Ld = embed_mat(orc, ssm, L, d)
    return embed_vec(orc, ssm, m, d), Ld.dot(Ld.T)
