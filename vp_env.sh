#!/bin/sh
# Idempotent, offline: overlay venv on /venv with z3-solver and cvc5 from the local wheelhouse.
set -e
HERE="$(cd "$(dirname "$0")" && pwd)"
VENV="$HERE/.venv"
if [ -x "$VENV/bin/python" ] && "$VENV/bin/python" -c "import z3, jax, cvc5, probdiffeq" >/dev/null 2>&1; then
    exit 0
fi
rm -rf "$VENV"
/venv/bin/python -m venv "$VENV"
SP="$("$VENV/bin/python" -c 'import sysconfig; print(sysconfig.get_paths()["purelib"])')"
printf "import site; site.addsitedir('/venv/lib/python3.12/site-packages')\n/repo\n" > "$SP/verif_overlay.pth"
PIP_NO_INDEX=1 "$VENV/bin/python" -m pip install --quiet --no-index --find-links /opt/veriftools/wheels z3-solver cvc5 >/dev/null
"$VENV/bin/python" -c "import z3, jax, cvc5; print('verif env ok: z3', z3.get_version_string(), 'jax', jax.__version__)"
