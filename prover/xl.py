"""Back end P: 'hypotheses |- goal polynomial = 0' by a sound linear abstraction.

Selected products  hypothesis x monomial  (all consequences of the hypotheses) are added,
every monomial is abstracted by a real variable, and z3 (QF_LRA) is asked whether the rows
are consistent with  goal != 0.  `unsat` means the goal vanishes on every real solution of
the hypotheses (a degree-bounded Nullstellensatz certificate found by the solver); `sat`
only means that this abstraction level is too weak -- refutation is a separate, exact query.
"""
import time
from fractions import Fraction

import z3

from jxs import poly as P
from jxs.poly import Poly, mono_div, mono_deg, mono_mul


def reduce_atoms(p, alg_atoms):
    """rewrite s^k -> c^(k//2) s^(k%2) for algebraic atoms s with s^2 = c."""
    if not alg_atoms or not (p.vars() & set(alg_atoms)):
        return p
    r = {}
    for m, c in p.t.items():
        nm = []
        for v, e in m:
            if v in alg_atoms and isinstance(e, int) and e >= 2:
                c = c * alg_atoms[v] ** (e // 2)
                if e % 2:
                    nm.append((v, 1))
            else:
                nm.append((v, e))
        nm = tuple(nm)
        nv = r.get(nm, 0) + c
        if nv == 0:
            r.pop(nm, None)
        else:
            r[nm] = nv
    return Poly({m: P._norm(c) for m, c in r.items()})


def reduce_squares(p, sq_atoms, limit=12):
    """rewrite s^e -> a^(e//2) s^(e%2) for atoms s with s^2 = a (a polynomial): sqrt/abs atoms"""
    if not sq_atoms:
        return p
    for _ in range(limit):
        hit = [v for v in p.vars() if v in sq_atoms]
        todo = False
        for v in hit:
            if any(e >= 2 for m in p.t for (w, e) in m if w == v):
                todo = True
                a = sq_atoms[v]
                out = Poly()
                for m, c in p.t.items():
                    e = 0
                    rest = []
                    for w, ee in m:
                        if w == v:
                            e = ee
                        else:
                            rest.append((w, ee))
                    term = Poly({tuple(rest): c})
                    if e >= 2:
                        term = term * (a ** (e // 2))
                        if e % 2:
                            term = term * Poly({((v, 1),): 1})
                    elif e == 1:
                        term = term * Poly({((v, 1),): 1})
                    out = out + term
                p = out
        if not todo:
            break
    return p


def clear_inverses(g, inv_atoms):
    """multiply g by the (non-zero, A3) bases of its inverse atoms until none is left.

    inv_atoms: var id -> base polynomial with  var * base = 1.  Returns (g', list of factors)."""
    factors = []
    for _ in range(200):
        vs = [v for v in g.vars() if v in inv_atoms]
        if not vs:
            break
        v = max(vs)
        base = inv_atoms[v]
        parts = {}
        emax = 0
        for m, c in g.t.items():
            e = 0
            rest = []
            for w, ee in m:
                if w == v:
                    e = ee
                else:
                    rest.append((w, ee))
            emax = max(emax, e)
            parts.setdefault(e, {})
            key = tuple(rest)
            parts[e][key] = parts[e].get(key, 0) + c
        out = Poly()
        pw = {0: Poly.const(1)}
        for k in range(1, emax + 1):
            pw[k] = pw[k - 1] * base
        for e, d in parts.items():
            out = out + Poly({m: c for m, c in d.items() if c != 0}) * pw[emax - e]
        g = out
        factors.append((v, emax))
    return g, factors


def split_free(goals, hyps):
    """a goal that is a polynomial in variables no hypothesis mentions vanishes on the solution set of
    the hypotheses for all values of those variables iff each of its coefficients does"""
    hv = set()
    for h in hyps:
        hv |= h.vars()
    out = []
    seen = set()
    for g in goals:
        free = g.vars() - hv
        if not free:
            parts = [g]
        else:
            groups = {}
            for m, c in g.t.items():
                fm = tuple((v, e) for v, e in m if v in free)
                rm = tuple((v, e) for v, e in m if v not in free)
                groups.setdefault(fm, {})[rm] = c
            parts = [Poly(d) for d in groups.values()]
        for q in parts:
            if not q.t:
                continue
            lead = min(q.t)          # canonical scaling
            c0 = q.t[lead]
            qn = q.scale(Fraction(1) / Fraction(c0)) if c0 != 1 else q
            if qn in seen:
                continue
            seen.add(qn)
            out.append(qn)
    return out


def derive_pairwise(hyps, defined):
    """extra consequences: when the input-only parts of two hypotheses are proportional (up to a
    unit monomial), their combination is a relation between defined variables only"""
    if not defined:
        return []
    groups = {}
    for h in hyps:
        ip = {}
        for m, c in h.t.items():
            if not any(v in defined for v, _ in m):
                ip[m] = c
        if len(ip) < 2 or len(ip) == len(h.t):
            continue
        # normalise by the componentwise-min unit exponents and the coefficient of the least monomial
        ue = {}
        for m in ip:
            d = dict((v, e) for v, e in m if v in P.UNITS)
            for v in set(list(ue) + list(d)):
                pass
        units = set(v for m in ip for v, _ in m if v in P.UNITS)
        shift = []
        for v in sorted(units):
            mn = min(dict(m).get(v, 0) for m in ip)
            if mn != 0:
                shift.append((v, -mn))
        shift = tuple(shift)
        ipn = {mono_mul(m, shift): c for m, c in ip.items()}
        lead = min(ipn)
        c0 = Fraction(ipn[lead])
        key = frozenset((m, Fraction(c) / c0) for m, c in ipn.items())
        groups.setdefault(key, []).append((h, shift, c0))
    out = []
    for key, lst in groups.items():
        if len(lst) < 2:
            continue
        h0, s0, c0 = lst[0]
        a0 = (h0 * Poly({s0: 1})).scale(Fraction(1) / c0) if s0 else h0.scale(Fraction(1) / c0)
        for h1, s1, c1 in lst[1:]:
            a1 = (h1 * Poly({s1: 1})).scale(Fraction(1) / c1) if s1 else h1.scale(Fraction(1) / c1)
            d = a0 - a1
            if d.t:
                out.append(d)
    return out


class Result:
    def __init__(self):
        self.status = None     # 'proved' | 'trivial' | 'not_proved'
        self.goal_status = []  # per goal
        self.rows = 0
        self.monos = 0
        self.rounds = 0
        self.solver_s = 0.0
        self.wall_s = 0.0
        self.maxdeg = None
        self.queries = 0
        self.cleared = 0
        self.n_split = 0
        self.derived = 0
        self.multiplied_by = None

    def as_dict(self):
        return {k: getattr(self, k) for k in
                ("status", "goal_status", "rows", "monos", "rounds", "solver_s", "wall_s", "maxdeg", "queries",
                 "cleared", "n_split", "derived", "multiplied_by")}


class _Lra:
    """rows (== 0) over monomial variables; every check builds a FRESH z3 solver (default SMT core with the new
    arithmetic solver): the incremental QF_LRA solver (old simplex) occasionally never returns on these instances"""

    def __init__(self, timeout_ms):
        self.timeout_ms = int(timeout_ms)
        self.mon = {}
        self.rows = []

    def lin(self, p):
        terms = []
        for m, c in p.t.items():
            cv = z3.RealVal(str(c)) if not isinstance(c, int) else z3.RealVal(c)
            if m == ():
                terms.append(cv)
                continue
            x = self.mon.get(m)
            if x is None:
                x = z3.Real("m%d" % len(self.mon))
                self.mon[m] = x
            terms.append(cv * x)
        if not terms:
            return z3.RealVal(0)
        return z3.Sum(terms) if len(terms) > 1 else terms[0]

    def add_row(self, p):
        self.rows.append(self.lin(p) == 0)

    def _solver(self):
        s = z3.Solver()
        s.set("timeout", self.timeout_ms)
        try:
            s.set("arith.solver", 6)
        except z3.Z3Exception:
            pass
        s.add(self.rows)
        return s

    def _external(self, smt2):
        """larger instances go to a z3 process with a HARD time limit (the in-process timeout is not always honoured
        on satisfiable, heavily under-determined systems); cvc5 gets the same text when z3 gives up"""
        import os, subprocess, tempfile, shutil
        d = tempfile.mkdtemp(prefix="verif_lra_")
        path = os.path.join(d, "q.smt2")
        try:
            with open(path, "w") as f:
                f.write("(set-logic QF_LRA)\n" + smt2)
            tsec = max(5, self.timeout_ms // 1000)
            for cmd in (["z3-new", f"-T:{tsec}", "smt.arith.solver=6", path], ["cvc5", f"--tlimit={tsec * 1000}", path]):
                if shutil.which(cmd[0]) is None:
                    continue
                try:
                    out = subprocess.run(cmd, capture_output=True, text=True, timeout=tsec + 10).stdout.strip().split("\n")
                except subprocess.TimeoutExpired:
                    continue
                first = out[0].strip() if out else ""
                if any("(error" in line for line in out):
                    continue
                if first in ("sat", "unsat"):
                    return first
            return "unknown"
        finally:
            shutil.rmtree(d, ignore_errors=True)

    def check_goals(self, goals, detail=True):
        """returns (overall, per-goal list) with values 'unsat'/'sat'/'unknown'"""
        s = self._solver()
        s.push()
        s.add(z3.Or([self.lin(g) != 0 for g in goals]))
        import os
        if os.environ.get("VERIF_DUMP_LRA"):
            self.ndump = getattr(self, "ndump", 0) + 1
            with open(os.environ["VERIF_DUMP_LRA"] + f".{self.ndump}.smt2", "w") as f:
                f.write("(set-logic QF_LRA)\n" + s.to_smt2())
        if len(self.rows) > 400:
            r = self._external(s.to_smt2())
        else:
            r = str(s.check())
        s.pop()
        if r == "unsat":
            return r, ["unsat"] * len(goals), 1
        if len(goals) == 1 or not detail:
            return r, [r] * len(goals), 1
        per = []
        q = 1
        for g in goals:
            s.push()
            s.add(self.lin(g) != 0)
            per.append(str(s.check()))
            s.pop()
            q += 1
        return r, per, q


def prove_with_cancellation(hyps, goals, *, inv_atoms=None, log=None, budget_s=300.0, **kw):
    """prove(goals); if that fails, retry with the goals multiplied by non-zero quantities (A3: bases of
    inverse atoms that are single variables, e.g. a named innovation variance).  b*g = 0 and b != 0
    give g = 0, so a proof of the multiplied goal is a proof of the goal."""
    t0 = time.time()
    res = prove(hyps, goals, inv_atoms=inv_atoms, log=log, budget_s=budget_s, **kw)
    if res.status in ("proved", "trivial") or not inv_atoms:
        return res
    cands = []
    for v, b in inv_atoms.items():
        if len(b.t) == 1 and b not in cands:
            (m, c), = b.t.items()
            if len(m) == 1 and m[0][1] == 1:
                cands.append(b)
    tried = 0
    cands = cands[::-1]
    mults = list(cands) + [b * b for b in cands] + [cands[i] * cands[j] for i in range(len(cands)) for j in range(i + 1, len(cands))]
    mults = mults[:12]
    for b in mults:
        left = budget_s - (time.time() - t0)
        if left < 5:
            break
        r2 = prove(hyps, [g * b for g in goals], inv_atoms=inv_atoms, log=log, budget_s=left, **kw)
        tried += 1
        res.rows += r2.rows; res.queries += r2.queries; res.solver_s += r2.solver_s
        if r2.status == "proved":
            r2.rows = res.rows; r2.queries = res.queries; r2.solver_s = res.solver_s
            r2.multiplied_by = str(b)
            r2.wall_s = time.time() - t0
            return r2
    res.wall_s = time.time() - t0
    return res


def prove(hyps, goals, *, alg_atoms=None, sq_atoms=None, inv_atoms=None, defined=None, extra_deg=2, maxdeg=None,
          sq_mode="all",
          max_rounds=24, max_rows=120000, timeout_ms=60000, budget_s=300.0, max_terms=3_000_000, log=None):
    """Try to show that every goal is zero given hyps (all == 0).

    Pre-processing (all sound): inverse atoms are cleared by multiplying with their non-zero bases
    (A3), squares of sqrt/abs atoms are rewritten by their defining equation, goals are split into
    the coefficients of variables that no hypothesis constrains."""
    t0 = time.time()
    res = Result()
    alg_atoms = alg_atoms or {}
    sq_atoms = sq_atoms or {}
    inv_atoms = inv_atoms or {}

    # squares of sqrt/abs atoms are rewritten only when the radicand is simple; otherwise the
    # defining equation stays an ordinary hypothesis (avoids expression swell)
    sq_simple = dict(sq_atoms) if sq_mode == "all" else {
        v: a for v, a in sq_atoms.items() if a.nterms() <= 1 and not (a.vars() & set(inv_atoms))}

    def norm(p):
        return reduce_atoms(reduce_squares(p, sq_simple), alg_atoms)
    hyps0 = hyps
    hyps = []
    for h in hyps0:
        h = norm(h)
        if h.vars() & set(inv_atoms):
            h, _ = clear_inverses(h, inv_atoms)   # a hypothesis times non-zero factors is a consequence
            h = norm(h)
        if h.t:
            hyps.append(h)
    derived = derive_pairwise(hyps, set(defined or ()))
    res.derived = len(derived)
    hyps = derived + hyps
    # only hypotheses connected to the goals through contract-defined variables can contribute (a subset of the
    # hypotheses is still a set of consequences, so dropping the rest is sound)
    dset = set(defined or ())
    if dset:
        need = set()
        for g in goals:
            need |= (g.vars() & dset)
            need |= (norm(g).vars() & dset)      # squares of sqrt/abs atoms are rewritten: follow the radicand too
        hv = [h.vars() & dset for h in hyps]
        used = [False] * len(hyps)
        changed = True
        while changed:
            changed = False
            for i, vs in enumerate(hv):
                if not used[i] and (vs & need or not vs):
                    used[i] = True
                    if not vs <= need:
                        need |= vs
                    changed = True
        hyps = [h for h, u_ in zip(hyps, used) if u_]
    goals_all = []
    res.cleared = 0
    for g in goals:
        g = norm(g)
        g2, fac = clear_inverses(g, inv_atoms)
        res.cleared += len(fac)
        goals_all.append(norm(g2))
    res.goal_status = ["trivial"] * len(goals_all)
    if all(not g.t for g in goals_all):
        res.status = "trivial"
        res.wall_s = time.time() - t0
        return res
    goals = split_free([g for g in goals_all if g.t], hyps)
    res.n_split = len(goals)
    idx = list(range(len(goals)))
    res.goal_status = ["trivial"] * len(goals)
    if maxdeg is None:
        maxdeg = max(max(g.deg() for g in goals), max((h.deg() for h in hyps), default=0)) + extra_deg
    res.maxdeg = maxdeg
    lra = _Lra(timeout_ms)
    rel = set()
    for g in goals:
        rel |= set(g.t)
    rows = set()
    frontier = set(rel)
    hdeg = [h.deg() for h in hyps]
    hterms = [list(h.t) for h in hyps]
    per = ["sat"] * len(goals)
    nterms = 0
    stop = False
    for rd in range(max_rounds):
        new = set()
        added = 0
        for hi, h in enumerate(hyps):
            for t in hterms[hi]:
                for m in frontier:
                    q = mono_div(m, t)
                    if q is None or (hi, q) in rows:
                        continue
                    if mono_deg(q) + hdeg[hi] > maxdeg:
                        continue
                    rows.add((hi, q))
                    row = h * Poly({q: 1}) if q else h
                    row = reduce_atoms(row, alg_atoms)
                    lra.add_row(row)
                    added += 1
                    nterms += len(row.t)
                    for mm in row.t:
                        if mm not in rel:
                            new.add(mm)
                    if added % 512 == 0 and (time.time() - t0 > budget_s or nterms > max_terms):
                        stop = True
                        break
                if stop or len(rows) > max_rows:
                    break
            if stop or len(rows) > max_rows:
                break
        rel |= new
        frontier = new
        ts = time.time()
        overall, per, q = lra.check_goals(goals, detail=False)
        res.solver_s += time.time() - ts
        res.queries += q
        res.rounds = rd + 1
        res.rows = len(rows)
        res.monos = len(rel)
        if log:
            log(f"      xl round {rd}: rows={len(rows)} monos={len(rel)} -> {overall} "
                f"({sum(1 for x in per if x == 'unsat')}/{len(per)} goals) t={time.time() - t0:.1f}s")
        if overall == "unsat":
            break
        if stop or not new or len(rows) > max_rows or (time.time() - t0) > budget_s:
            break
    for k, i in enumerate(idx):
        res.goal_status[i] = "proved" if per[k] == "unsat" else "not_proved"
    res.status = "proved" if all(x == "unsat" for x in per) else "not_proved"
    res.wall_s = time.time() - t0
    return res
