"""Back end P: 'hypotheses |- goal polynomial = 0' by a sound linear abstraction.

Selected products  hypothesis x monomial  (all consequences of the hypotheses) are added,
every monomial is abstracted by a real variable, and z3 (QF_LRA) is asked whether the rows
are consistent with  goal != 0.  `unsat` means the goal vanishes on every real solution of
the hypotheses (a degree-bounded Nullstellensatz certificate found by the solver); `sat`
only means that this abstraction level is too weak -- refutation is a separate, exact query.
"""
import time
from fractions import Fraction

import z3

from jxs import poly as P
from jxs.poly import Poly, mono_div, mono_deg, mono_mul


def reduce_atoms(p, alg_atoms):
    """rewrite s^k -> c^(k//2) s^(k%2) for algebraic atoms s with s^2 = c."""
    if not alg_atoms or not (p.vars() & set(alg_atoms)):
        return p
    r = {}
    for m, c in p.t.items():
        nm = []
        for v, e in m:
            if v in alg_atoms and isinstance(e, int) and e >= 2:
                c = c * alg_atoms[v] ** (e // 2)
                if e % 2:
                    nm.append((v, 1))
            else:
                nm.append((v, e))
        nm = tuple(nm)
        nv = r.get(nm, 0) + c
        if nv == 0:
            r.pop(nm, None)
        else:
            r[nm] = nv
    return Poly({m: P._norm(c) for m, c in r.items()})


class Result:
    def __init__(self):
        self.status = None     # 'proved' | 'trivial' | 'not_proved'
        self.goal_status = []  # per goal
        self.rows = 0
        self.monos = 0
        self.rounds = 0
        self.solver_s = 0.0
        self.wall_s = 0.0
        self.maxdeg = None
        self.queries = 0

    def as_dict(self):
        return {k: getattr(self, k) for k in
                ("status", "goal_status", "rows", "monos", "rounds", "solver_s", "wall_s", "maxdeg", "queries")}


class _Lra:
    def __init__(self, timeout_ms):
        self.s = z3.SolverFor("QF_LRA")
        self.s.set("timeout", int(timeout_ms))
        self.mon = {}

    def lin(self, p):
        terms = []
        for m, c in p.t.items():
            cv = z3.RealVal(str(c)) if not isinstance(c, int) else z3.RealVal(c)
            if m == ():
                terms.append(cv)
                continue
            x = self.mon.get(m)
            if x is None:
                x = z3.Real("m%d" % len(self.mon))
                self.mon[m] = x
            terms.append(cv * x)
        if not terms:
            return z3.RealVal(0)
        return z3.Sum(terms) if len(terms) > 1 else terms[0]

    def add_row(self, p):
        self.s.add(self.lin(p) == 0)

    def check_goals(self, goals):
        """returns (overall, per-goal list) with values 'unsat'/'sat'/'unknown'"""
        self.s.push()
        self.s.add(z3.Or([self.lin(g) != 0 for g in goals]))
        r = str(self.s.check())
        self.s.pop()
        if r == "unsat":
            return r, ["unsat"] * len(goals), 1
        per = []
        q = 1
        for g in goals:
            self.s.push()
            self.s.add(self.lin(g) != 0)
            per.append(str(self.s.check()))
            self.s.pop()
            q += 1
        return r, per, q


def prove(hyps, goals, *, alg_atoms=None, extra_deg=2, maxdeg=None, max_rounds=10, max_rows=120000,
          timeout_ms=120000, budget_s=300.0, max_terms=3_000_000, log=None):
    """Try to show that every goal is zero given hyps (all == 0)."""
    t0 = time.time()
    res = Result()
    alg_atoms = alg_atoms or {}
    hyps = [reduce_atoms(h, alg_atoms) for h in hyps]
    hyps = [h for h in hyps if h.t]
    goals_all = [reduce_atoms(g, alg_atoms) for g in goals]
    idx = [i for i, g in enumerate(goals_all) if g.t]
    res.goal_status = ["trivial"] * len(goals_all)
    if not idx:
        res.status = "trivial"
        res.wall_s = time.time() - t0
        return res
    goals = [goals_all[i] for i in idx]
    if maxdeg is None:
        maxdeg = max(g.deg() for g in goals) + extra_deg
    res.maxdeg = maxdeg
    lra = _Lra(timeout_ms)
    rel = set()
    for g in goals:
        rel |= set(g.t)
    rows = set()
    frontier = set(rel)
    hdeg = [h.deg() for h in hyps]
    hterms = [list(h.t) for h in hyps]
    per = ["sat"] * len(goals)
    nterms = 0
    stop = False
    for rd in range(max_rounds):
        new = set()
        added = 0
        for hi, h in enumerate(hyps):
            for t in hterms[hi]:
                for m in frontier:
                    q = mono_div(m, t)
                    if q is None or (hi, q) in rows:
                        continue
                    if mono_deg(q) + hdeg[hi] > maxdeg:
                        continue
                    rows.add((hi, q))
                    row = h * Poly({q: 1}) if q else h
                    row = reduce_atoms(row, alg_atoms)
                    lra.add_row(row)
                    added += 1
                    nterms += len(row.t)
                    for mm in row.t:
                        if mm not in rel:
                            new.add(mm)
                    if added % 512 == 0 and (time.time() - t0 > budget_s or nterms > max_terms):
                        stop = True
                        break
                if stop or len(rows) > max_rows:
                    break
            if stop or len(rows) > max_rows:
                break
        rel |= new
        frontier = new
        ts = time.time()
        overall, per, q = lra.check_goals(goals)
        res.solver_s += time.time() - ts
        res.queries += q
        res.rounds = rd + 1
        res.rows = len(rows)
        res.monos = len(rel)
        if log:
            log(f"      xl round {rd}: rows={len(rows)} monos={len(rel)} -> {overall} "
                f"({sum(1 for x in per if x == 'unsat')}/{len(per)} goals) t={time.time() - t0:.1f}s")
        if overall == "unsat":
            break
        if stop or not new or len(rows) > max_rows or (time.time() - t0) > budget_s:
            break
    for k, i in enumerate(idx):
        res.goal_status[i] = "proved" if per[k] == "unsat" else "not_proved"
    res.status = "proved" if all(x == "unsat" for x in per) else "not_proved"
    res.wall_s = time.time() - t0
    return res
